

#[cfg(kani)]
mod verif_kani {
    use super::*;
    fn any_sc() -> SeqClock { SeqClock(vec![NonZeroU32::new(kani::any()), NonZeroU32::new(kani::any()), NonZeroU32::new(kani::any())]) }
    #[kani::proof]
    #[kani::unwind(5)]
    fn seqclock_merge_is_join() {
        let mut a = any_sc(); let a0 = a.clone(); let b = any_sc(); let c = any_sc();
        SeqClock::merge(&mut a, &b);
        assert!(a.covers(&a0) && a.covers(&b));
        if c.covers(&a0) && c.covers(&b) { assert!(c.covers(&a)); }
    }
}
