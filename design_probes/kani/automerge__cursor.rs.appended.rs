

#[cfg(kani)]
mod verif_kani {
    use super::*;
    #[kani::proof]
    #[kani::unwind(6)]
    fn cursor_from_str_total() {
        let a: [u8; 3] = kani::any();
        let n: usize = kani::any();
        kani::assume(n <= 3);
        if let Ok(s) = std::str::from_utf8(&a[..n]) {
            let _ = Cursor::from_str(s);
        }
    }
    #[kani::proof]
    #[kani::unwind(12)]
    fn cursor_bytes_roundtrip() {
        let ab: [u8; 2] = kani::any();
        let c = Cursor::Op(OpCursor { ctr: kani::any(), actor: ActorId::from(&ab[..]), move_cursor: if kani::any() { MoveCursor::Before } else { MoveCursor::After } });
        let b = c.to_bytes();
        let d = Cursor::try_from(b.as_slice());
        assert!(d.is_ok());
        assert!(d.unwrap() == c);
    }
}
