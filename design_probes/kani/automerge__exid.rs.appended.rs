

#[cfg(kani)]
mod verif_kani {
    use super::*;
    #[kani::proof]
    #[kani::unwind(12)]
    fn exid_bytes_roundtrip() {
        let ab: [u8; 2] = kani::any();
        let ctr: u64 = kani::any();
        let idx: usize = kani::any();
        let c = ExId::Id(ctr, ActorId::from(&ab[..]), idx);
        let b = c.to_bytes();
        match ExId::try_from(b.as_slice()) {
            Ok(ExId::Id(c2, a2, i2)) => { assert!(c2 == ctr); assert!(i2 == idx); assert!(a2.to_bytes() == &ab[..]); }
            _ => assert!(false),
        }
    }
}
