
#[cfg(kani)]
mod verif_kani {
    use crate::types::OpId;
    use crate::storage::parse;
    use std::cmp::Ordering;

    #[kani::proof]
    #[kani::unwind(34)]
    fn hash_cmp() {
        let a = crate::ChangeHash(kani::any());
        let b = crate::ChangeHash(kani::any());
        if a < b { assert!(a != b); }
        let mut s = std::collections::BTreeSet::new();
        s.insert(a); s.insert(b);
        assert!(s.contains(&a));
    }

    #[kani::proof]
    #[kani::unwind(70)]
    fn sha_hash() {
        let d: [u8; 3] = kani::any();
        let h = crate::storage::Header::new(crate::storage::ChunkType::Change, &d);
        assert!(h.checksum_valid());
    }

    #[kani::proof]
    fn opid_total_order() {
        let a = OpId::new(kani::any::<u32>() as u64, kani::any::<u32>() as usize);
        let b = OpId::new(kani::any::<u32>() as u64, kani::any::<u32>() as usize);
        let c = OpId::new(kani::any::<u32>() as u64, kani::any::<u32>() as usize);
        // antisymmetry / totality
        assert!(a.cmp(&b) == b.cmp(&a).reverse());
        assert!((a.cmp(&b) == Ordering::Equal) == (a == b));
        if a.cmp(&b) != Ordering::Greater && b.cmp(&c) != Ordering::Greater {
            assert!(a.cmp(&c) != Ordering::Greater);
        }
        // lamport: counter dominates
        if a.counter() < b.counter() { assert!(a < b); }
    }

    #[kani::proof]
    #[kani::unwind(12)]
    fn leb_u64_total() {
        let bytes: [u8; 11] = kani::any();
        let n: usize = kani::any();
        kani::assume(n <= 11);
        let r = parse::leb128_u64::<parse::leb128::Error>(parse::Input::new(&bytes[..n]));
        if let Ok((rest, v)) = r {
            let used = n - rest.unconsumed_bytes().len();
            assert!(used >= 1 && used <= 10);
            // canonical re-encoding is identical
            let mut out = Vec::new();
            leb128::write::unsigned(&mut out, v).unwrap();
            assert!(out.len() == used);
            assert!(out[0] == bytes[0]);
        }
    }

    #[kani::proof]
    #[kani::unwind(10)]
    fn bloom_query_never_panics() {
        let bytes: [u8; 8] = kani::any();
        let n: usize = kani::any();
        kani::assume(n <= 8);
        if let Ok(f) = crate::sync::BloomFilter::try_from(&bytes[..n]) {
            let h = crate::ChangeHash(kani::any());
            let _ = f.contains_hash(&h);
        }
    }
}
