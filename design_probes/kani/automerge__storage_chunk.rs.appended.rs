

#[cfg(kani)]
mod verif_kani {
    use super::*;
    fn hash_stub(_typ: ChunkType, _data: &[u8]) -> ChangeHash { ChangeHash(kani::any()) }

    #[kani::proof]
    #[kani::unwind(26)]
    #[kani::stub(hash, hash_stub)]
    fn header_parse_canonical() {
        let bytes: [u8; 24] = kani::any();
        let n: usize = kani::any();
        kani::assume(n <= 24);
        let r = Header::parse::<error::Header>(parse::Input::new(&bytes[..n]));
        if let Ok((rest, h)) = r {
            assert!(h.len() >= 10 && h.len() <= 19);
            assert!(n >= h.len() + h.data_len);
            assert!(rest.unconsumed_bytes().len() == n - h.len());
            let mut out = Vec::new();
            h.write(&mut out);
            assert!(out.len() == h.len());
            let mut i = 0;
            while i < out.len() { assert!(out[i] == bytes[i]); i += 1; }
            // any strict prefix of the chunk is rejected
            let m: usize = kani::any();
            kani::assume(m < h.len() + h.data_len);
            let r2 = Header::parse::<error::Header>(parse::Input::new(&bytes[..m]));
            assert!(matches!(r2, Err(parse::ParseError::Incomplete(_))));
        }
    }
}
