

#[cfg(kani)]
mod verif_kani {
    use super::*;
    #[kani::proof]
    #[kani::unwind(5)]
    fn flags_roundtrip() {
        let f = MessageFlags(kani::any::<u8>() & 0x7f);
        let mut out = Vec::new();
        f.encode(&mut out);
        assert!(out.len() == 3 && out[0] == 2);
        assert!(MessageFlags::parse_bytes(&out[1..]) == f);
    }
}
