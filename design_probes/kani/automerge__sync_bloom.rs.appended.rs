
#[cfg(kani)]
mod verif_kani {
    use super::*;

    fn any_filter(max_bytes: usize) -> BloomFilter {
        let n: usize = kani::any();
        kani::assume(n <= max_bytes);
        let mut bits = Vec::with_capacity(n);
        for _ in 0..n { bits.push(kani::any::<u8>()); }
        BloomFilter { num_entries: kani::any(), num_bits_per_entry: kani::any(), num_probes: kani::any(), bits }
    }

    #[kani::proof]
    #[kani::unwind(9)]
    fn add_then_contains() {
        let mut f = any_filter(3);
        kani::assume(f.num_probes <= 7);
        kani::assume(f.num_entries != 0);
        kani::assume(f.bits.len() > 0);
        let before = f.bits.clone();
        let h = ChangeHash(kani::any());
        f.add_hash(&h);
        assert!(f.bits.len() == before.len());
        for i in 0..before.len() { assert!(f.bits[i] & before[i] == before[i]); }
        assert!(f.contains_hash(&h));
    }

    #[kani::proof]
    #[kani::unwind(9)]
    fn concrete_shape() {
        let bits = vec![kani::any::<u8>(), kani::any::<u8>()];
        let mut f = BloomFilter { num_entries: 1, num_bits_per_entry: 10, num_probes: 7, bits };
        let before = f.bits.clone();
        let h = ChangeHash(kani::any());
        f.add_hash(&h);
        assert!(f.bits[0] & before[0] == before[0]);
        assert!(f.contains_hash(&h));
    }

    #[kani::proof]
    fn bits_capacity_exact() {
        let n: u32 = kani::any();
        let b: u32 = kani::any();
        let r = bits_capacity(n, b) as u128;
        let want = ((n as u128) * (b as u128) + 7) / 8;
        assert!(r >= want);
    }

    #[kani::proof]
    #[kani::unwind(9)]
    fn query_total() {
        let f = any_filter(2);
        kani::assume(f.num_probes <= 7);
        let h = ChangeHash(kani::any());
        let _ = f.contains_hash(&h);
    }
}
