

#[cfg(kani)]
mod verif_kani {
    use super::*;
    #[kani::proof]
    #[kani::unwind(40)]
    fn state_roundtrip_1() {
        let mut s = State::new();
        s.shared_heads = vec![ChangeHash(kani::any())];
        s.in_flight = kani::any();
        s.have_responded = kani::any();
        let b = s.encode();
        let (_, d) = State::parse(parse::Input::new(&b)).ok().unwrap();
        assert!(d.shared_heads == s.shared_heads);
        assert!(!d.in_flight && !d.have_responded && d.their_heads.is_none() && d.sent_hashes.is_empty());
    }
    #[kani::proof]
    #[kani::unwind(6)]
    fn set_read_only_transitions() {
        let mut s = State::new();
        s.read_only = kani::any();
        s.in_flight = kani::any();
        s.have_responded = kani::any();
        s.needs_reset = kani::any();
        s.peer_read_only = kani::any();
        let before_ro = s.read_only;
        let before = s.clone();
        let target: bool = kani::any();
        s.set_read_only(target);
        assert!(s.read_only == target);
        if before_ro == target { assert!(s == before); }
        if before_ro && !target { assert!(s.needs_reset && !s.in_flight && !s.have_responded && s.shared_heads.is_empty()); }
        if !before_ro && target { assert!(!s.in_flight && !s.have_responded && s.needs_reset == before.needs_reset); }
    }
}
