

#[cfg(kani)]
mod verif_kani {
    use super::*;
    struct Rec { old_pos: usize, new_pos: usize, ok: bool }
    impl DiffHook for Rec {
        type Error = ();
        fn equal(&mut self, o: usize, n: usize, len: usize) -> Result<(), ()> { if o != self.old_pos || n != self.new_pos { self.ok = false; } self.old_pos += len; self.new_pos += len; Ok(()) }
        fn delete(&mut self, o: usize, ol: usize, n: usize) -> Result<(), ()> { if o != self.old_pos || n != self.new_pos { self.ok = false; } self.old_pos += ol; Ok(()) }
        fn insert(&mut self, o: usize, n: usize, nl: usize) -> Result<(), ()> { if o != self.old_pos || n != self.new_pos { self.ok = false; } self.new_pos += nl; Ok(()) }
        fn replace(&mut self, o: usize, ol: usize, n: usize, nl: usize) -> Result<(), ()> { if o != self.old_pos || n != self.new_pos { self.ok = false; } self.old_pos += ol; self.new_pos += nl; Ok(()) }
        fn finish(&mut self) -> Result<(), ()> { Ok(()) }
    }
    fn run<const LA: usize, const LB: usize>() {
        let a: [u8; LA] = kani::any(); let b: [u8; LB] = kani::any();
        for x in a.iter() { kani::assume(*x < 3); }
        for x in b.iter() { kani::assume(*x < 3); }
        let mut r = Rec { old_pos: 0, new_pos: 0, ok: true };
        let res = diff(&mut r, &a[..], 0..LA, &b[..], 0..LB);
        assert!(res.is_ok());
        assert!(r.ok && r.old_pos == LA && r.new_pos == LB);
    }
    #[kani::proof]
    #[kani::unwind(8)]
    fn myers_2_2() { run::<2, 2>() }
    #[kani::proof]
    #[kani::unwind(8)]
    fn myers_3_2() { run::<3, 2>() }
    #[kani::proof]
    #[kani::unwind(10)]
    fn myers_3_3() { run::<3, 3>() }

    #[kani::proof]
    #[kani::unwind(8)]
    fn myers_tiles() {
        let a: [u8; 3] = kani::any(); let b: [u8; 3] = kani::any();
        let la: usize = kani::any(); let lb: usize = kani::any();
        kani::assume(la <= 3 && lb <= 3);
        kani::assume(a[0] < 2 && a[1] < 2 && a[2] < 2 && b[0] < 2 && b[1] < 2 && b[2] < 2);
        let mut r = Rec { old_pos: 0, new_pos: 0, ok: true };
        let res = diff(&mut r, &a[..la], 0..la, &b[..lb], 0..lb);
        assert!(res.is_ok());
        assert!(r.ok && r.old_pos == la && r.new_pos == lb);
    }
}
