

#[cfg(kani)]
mod verif_kani {
    use super::*;
    fn any_str<const N: usize>(buf: &[u8; N]) -> Option<&str> {
        let n: usize = kani::any();
        kani::assume(n <= N);
        std::str::from_utf8(&buf[..n]).ok()
    }
    #[kani::proof]
    #[kani::unwind(6)]
    fn width_additive() {
        let a: [u8; 4] = kani::any();
        if let Some(s) = any_str(&a) {
            let w8 = TextEncoding::Utf8CodeUnit.width(s);
            let wc = TextEncoding::UnicodeCodePoint.width(s);
            let w16 = TextEncoding::Utf16CodeUnit.width(s);
            assert!(w8 == s.len());
            assert!(wc <= w16 && w16 <= w8);
            assert!(w16 <= 2 * wc);
            if s.len() > 0 { assert!(wc >= 1); }
        }
    }
}
