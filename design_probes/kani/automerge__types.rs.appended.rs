

#[cfg(kani)]
mod verif_kani {
    use super::*;
    fn any_str<const N: usize>(buf: &[u8; N]) -> Option<&str> {
        let n: usize = kani::any();
        kani::assume(n <= N);
        std::str::from_utf8(&buf[..n]).ok()
    }
    #[kani::proof]
    #[kani::unwind(6)]
    fn width_additive() {
        let a: [u8; 4] = kani::any();
        if let Some(s) = any_str(&a) {
            let w8 = TextEncoding::Utf8CodeUnit.width(s);
            let wc = TextEncoding::UnicodeCodePoint.width(s);
            let w16 = TextEncoding::Utf16CodeUnit.width(s);
            assert!(w8 == s.len());
            assert!(wc <= w16 && w16 <= w8);
            assert!(w16 <= 2 * wc);
            if s.len() > 0 { assert!(wc >= 1); }
        }
    }
}


#[cfg(kani)]
mod verif_kani2 {
    use super::*;
    #[kani::proof]
    #[kani::unwind(10)]
    fn width_one_char() {
        let c: char = kani::any();
        let mut buf = [0u8; 4];
        let s: &str = c.encode_utf8(&mut buf);
        assert!(TextEncoding::Utf8CodeUnit.width(s) == c.len_utf8());
        assert!(TextEncoding::Utf16CodeUnit.width(s) == c.len_utf16());
        assert!(TextEncoding::UnicodeCodePoint.width(s) == 1);
    }
    #[kani::proof]
    #[kani::unwind(12)]
    fn width_two_chars_additive() {
        let c1: char = kani::any();
        let c2: char = kani::any();
        let mut s = String::new();
        s.push(c1); s.push(c2);
        assert!(TextEncoding::Utf8CodeUnit.width(&s) == c1.len_utf8() + c2.len_utf8());
        assert!(TextEncoding::Utf16CodeUnit.width(&s) == c1.len_utf16() + c2.len_utf16());
        assert!(TextEncoding::UnicodeCodePoint.width(&s) == 2);
    }
}
