
#[cfg(kani)]
mod verif_kani {
    use crate::*;

    #[kani::proof]
    #[kani::unwind(12)]
    fn leb_codec_roundtrip() {
        let n: u64 = kani::any();
        let e = Leb128::encode_unsigned(n);
        assert!(e.len() as u64 == Leb128::unsigned_size(n));
        assert!(Leb128::read_unsigned(&e) == Some((e.len(), n)));
        assert!(Leb128::unsigned_len(&e) == Some(e.len()));
        let m: i64 = kani::any();
        let e = Leb128::encode_signed(m);
        assert!(e.len() as u64 == Leb128::signed_size(m));
        assert!(Leb128::read_signed(&e) == Some((e.len(), m)));
    }

    #[kani::proof]
    #[kani::unwind(8)]
    fn string_col_load_utf8() {
        let bytes: [u8; 4] = kani::any();
        let n: usize = kani::any();
        kani::assume(n <= 4);
        if let Ok(col) = Column::<String>::load(&bytes[..n]) {
            for s in col.iter() {
                assert!(std::str::from_utf8(s.as_bytes()).is_ok());
            }
        }
    }

    #[kani::proof]
    #[kani::unwind(8)]
    fn u64_col_like_vec() {
        let mut col = Column::<u64>::new();
        let a: u64 = kani::any();
        let b: u64 = kani::any();
        let c: u64 = kani::any();
        col.push(a); col.push(b);
        col.insert(1, c);
        assert!(col.len() == 3);
        assert!(col.get(0) == Some(a));
        assert!(col.get(1) == Some(c));
        assert!(col.get(2) == Some(b));
    }
}
