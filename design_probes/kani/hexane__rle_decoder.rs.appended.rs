
#[cfg(kani)]
mod verif_kani {
    use super::*;
    #[kani::proof]
    #[kani::unwind(12)]
    fn segment_step_total_u64() {
        let bytes: [u8; 12] = kani::any();
        let mut d = RleDecoder::<u64, Leb128>::new(&bytes);
        let r = d.try_next_segment();
        if let Ok(Some(_)) = r { assert!(d.byte_pos <= 12); }
    }
    #[kani::proof]
    #[kani::unwind(12)]
    fn segment_step_utf8() {
        let bytes: [u8; 6] = kani::any();
        let mut d = RleDecoder::<String, Leb128>::new(&bytes);
        if let Ok(Some(RleSegment::Run { value, .. })) = d.try_next_segment() {
            assert!(std::str::from_utf8(value.as_bytes()).is_ok());
            let (_, v2) = <String as RleValue>::unpack::<Leb128>(&bytes[1..]);
            assert!(v2 == value);
        }
    }
}
