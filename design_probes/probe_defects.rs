use automerge::{transaction::Transactable, AutoCommit, ObjType, ReadDoc, ROOT, Cursor, ObjId, ChangeHash};
use std::panic::catch_unwind;

#[test]
fn probe() {
    let r = catch_unwind(|| {
        let f = automerge::sync::BloomFilter::try_from(&[1u8, 0, 7][..]).unwrap();
        f.contains_hash(&ChangeHash([1; 32]))
    });
    println!("bloom zero-width: {:?}", r.is_err());

    let r = catch_unwind(|| Cursor::try_from("").is_ok());
    println!("cursor empty str panics: {:?}", r.is_err());
    let r = catch_unwind(|| Cursor::try_from("é@aa").is_ok());
    println!("cursor multibyte str panics: {:?}", r.is_err());

    let r = catch_unwind(|| {
        let mut d = AutoCommit::new();
        let t = d.put_object(ROOT, "t", ObjType::Text).unwrap();
        d.splice_text(&t, 0, 0, "hello").unwrap();
        let actor = d.get_actor().to_hex_string();
        let c = Cursor::try_from(format!("4294967296@{}", actor).as_str()).unwrap();
        d.get_cursor_position(&t, &c, None).is_ok()
    });
    println!("cursor big ctr panics: {:?}", r);

    let r = catch_unwind(|| {
        let mut d = AutoCommit::new();
        let t = d.put_object(ROOT, "t", ObjType::Text).unwrap();
        let mut b = t.to_bytes();
        // tag, actorlen, actor..., idx, ctr  -> replace last leb (ctr=1) with 2^32
        b.pop();
        b.extend_from_slice(&[0x80, 0x80, 0x80, 0x80, 0x10]);
        let o = ObjId::try_from(&b[..]).unwrap();
        d.get(&o, "x").is_ok()
    });
    println!("exid big ctr panics: {:?}", r);
}
