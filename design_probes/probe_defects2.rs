use automerge::{transaction::Transactable, AutoCommit, ObjType, ReadDoc, ROOT};
use std::panic::catch_unwind;
use serde::ser::*;

// A serializer that checks the serde length contract for maps
struct Chk;
struct ChkMap { hint: Option<usize>, n: usize }
#[derive(Debug)]
struct E(String);
impl std::fmt::Display for E { fn fmt(&self, f: &mut std::fmt::Formatter<'_>) -> std::fmt::Result { write!(f, "{}", self.0) } }
impl std::error::Error for E {}
impl serde::ser::Error for E { fn custom<T: std::fmt::Display>(m: T) -> Self { E(m.to_string()) } }
impl SerializeMap for ChkMap {
    type Ok = (); type Error = E;
    fn serialize_key<T: ?Sized + serde::Serialize>(&mut self, _k: &T) -> Result<(), E> { self.n += 1; Ok(()) }
    fn serialize_value<T: ?Sized + serde::Serialize>(&mut self, v: &T) -> Result<(), E> { v.serialize(Chk) }
    fn end(self) -> Result<(), E> { if let Some(h) = self.hint { if h != self.n { return Err(E(format!("map announced {} entries but wrote {}", h, self.n))); } } Ok(()) }
}
impl SerializeSeq for ChkMap {
    type Ok = (); type Error = E;
    fn serialize_element<T: ?Sized + serde::Serialize>(&mut self, v: &T) -> Result<(), E> { self.n += 1; v.serialize(Chk) }
    fn end(self) -> Result<(), E> { if let Some(h) = self.hint { if h != self.n { return Err(E(format!("seq announced {} but wrote {}", h, self.n))); } } Ok(()) }
}
macro_rules! prim { ($($f:ident: $t:ty),*) => { $(fn $f(self, _v: $t) -> Result<(), E> { Ok(()) })* } }
impl serde::Serializer for Chk {
    type Ok = (); type Error = E;
    type SerializeSeq = ChkMap; type SerializeTuple = Impossible<(), E>; type SerializeTupleStruct = Impossible<(), E>;
    type SerializeTupleVariant = Impossible<(), E>; type SerializeMap = ChkMap; type SerializeStruct = Impossible<(), E>; type SerializeStructVariant = Impossible<(), E>;
    prim!(serialize_bool: bool, serialize_i8: i8, serialize_i16: i16, serialize_i32: i32, serialize_i64: i64, serialize_u8: u8, serialize_u16: u16, serialize_u32: u32, serialize_u64: u64, serialize_f32: f32, serialize_f64: f64, serialize_char: char, serialize_str: &str, serialize_bytes: &[u8]);
    fn serialize_none(self) -> Result<(), E> { Ok(()) }
    fn serialize_some<T: ?Sized + serde::Serialize>(self, v: &T) -> Result<(), E> { v.serialize(Chk) }
    fn serialize_unit(self) -> Result<(), E> { Ok(()) }
    fn serialize_unit_struct(self, _: &'static str) -> Result<(), E> { Ok(()) }
    fn serialize_unit_variant(self, _: &'static str, _: u32, _: &'static str) -> Result<(), E> { Ok(()) }
    fn serialize_newtype_struct<T: ?Sized + serde::Serialize>(self, _: &'static str, v: &T) -> Result<(), E> { v.serialize(Chk) }
    fn serialize_newtype_variant<T: ?Sized + serde::Serialize>(self, _: &'static str, _: u32, _: &'static str, v: &T) -> Result<(), E> { v.serialize(Chk) }
    fn serialize_seq(self, len: Option<usize>) -> Result<ChkMap, E> { Ok(ChkMap { hint: len, n: 0 }) }
    fn serialize_tuple(self, _: usize) -> Result<Self::SerializeTuple, E> { Err(E("t".into())) }
    fn serialize_tuple_struct(self, _: &'static str, _: usize) -> Result<Self::SerializeTupleStruct, E> { Err(E("t".into())) }
    fn serialize_tuple_variant(self, _: &'static str, _: u32, _: &'static str, _: usize) -> Result<Self::SerializeTupleVariant, E> { Err(E("t".into())) }
    fn serialize_map(self, len: Option<usize>) -> Result<ChkMap, E> { Ok(ChkMap { hint: len, n: 0 }) }
    fn serialize_struct(self, _: &'static str, _: usize) -> Result<Self::SerializeStruct, E> { Err(E("t".into())) }
    fn serialize_struct_variant(self, _: &'static str, _: u32, _: &'static str, _: usize) -> Result<Self::SerializeStructVariant, E> { Err(E("t".into())) }
}

#[test]
fn probe2() {
    let mut d = AutoCommit::new();
    let m = d.put_object(ROOT, "m", ObjType::Map).unwrap();
    d.put(&m, "a", 1).unwrap();
    d.put(&m, "b", 2).unwrap();
    let r = serde::Serialize::serialize(&automerge::AutoSerde::from(&d), Chk);
    println!("autoserde nested map: {:?}", r);

    let r = catch_unwind(|| {
        let bytes = [0x80u8,0x80,0x80,0x80,0x80,0x80,0x80,0x80,0x80,0x7f, 1, 2, 3];
        hexane::Column::<u64>::load(&bytes).is_ok()
    });
    println!("hexane i64::MIN literal header: {:?}", r);
}
