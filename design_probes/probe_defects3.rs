use automerge::{transaction::Transactable, AutoCommit, Automerge, LoadOptions, OnPartialLoad, ReadDoc, ROOT};

#[test]
fn probe3() {
    let mut d = AutoCommit::new();
    d.put(ROOT, "a", 1).unwrap();
    let mut file = d.save();
    d.put(ROOT, "b", 2).unwrap();
    file.extend(d.save_incremental());
    d.put(ROOT, "c", 3).unwrap();
    file.extend(d.save_incremental());
    let full = file.len();
    d.put(ROOT, "d", 4).unwrap();
    file.extend(d.save_incremental());
    // cut in the middle of the last chunk
    let cut = full + 5;
    let r = Automerge::load_with_options(&file[..cut], LoadOptions::new().on_partial_load(OnPartialLoad::Ignore));
    match r {
        Ok(doc) => {
            let keys: Vec<_> = doc.keys(ROOT).collect();
            println!("partial load keys = {:?} (expected a,b,c)", keys);
        }
        Err(e) => println!("partial load error: {e}"),
    }
    let doc = Automerge::load_with_options(&file[..full], LoadOptions::new().on_partial_load(OnPartialLoad::Ignore)).unwrap();
    println!("boundary load keys = {:?}", doc.keys(ROOT).collect::<Vec<_>>());
}
