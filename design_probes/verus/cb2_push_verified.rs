use vstd::prelude::*;
verus! {
// ---- assumed environment ----
#[derive(PartialEq, Eq, Clone, Copy)]
pub struct ChangeHash(pub [u8; 32]);
#[verifier::external_body]
#[verifier::reject_recursive_types(T)]
pub struct HashSet<T> { _p: core::marker::PhantomData<T> }
impl<T> HashSet<T> {
    pub uninterp spec fn view(&self) -> Set<T>;
    #[verifier::external_body]
    pub fn contains(&self, k: &T) -> (r: bool) ensures r == self.view().contains(*k) { unimplemented!() }
    #[verifier::external_body]
    pub fn insert(&mut self, k: T) -> (r: bool) ensures final(self).view() == old(self).view().insert(k), r == !old(self).view().contains(k) { unimplemented!() }
}
#[verifier::external_body]
pub struct ActorId { _p: () }
impl ActorId {
    #[verifier::external_body]
    pub fn clone(&self) -> (r: ActorId) ensures r == *self { unimplemented!() }
}
#[verifier::external_body]
pub struct Change { _p: () }
impl Change {
    pub uninterp spec fn spec_hash(&self) -> ChangeHash;
    pub uninterp spec fn spec_actor(&self) -> ActorId;
    pub uninterp spec fn spec_seq(&self) -> u64;
    #[verifier::external_body]
    pub fn hash(&self) -> (r: ChangeHash) ensures r == self.spec_hash() { unimplemented!() }
    #[verifier::external_body]
    pub fn actor_id(&self) -> (r: &ActorId) ensures *r == self.spec_actor() { unimplemented!() }
    #[verifier::external_body]
    pub fn seq(&self) -> (r: u64) ensures r == self.spec_seq() { unimplemented!() }
}
pub enum AutomergeError { DuplicateSeqNumber(u64, ActorId), Other }

pub struct ChangeBatch {
    pub changes: Vec<Change>,
    pub hashes: HashSet<ChangeHash>,
    pub incoming_actor_seqs: HashSet<(ActorId, u64)>,
}

impl ChangeBatch {
    pub open spec fn wf(&self) -> bool {
        &&& forall|i: int| 0 <= i < self.changes.len() ==> self.hashes@.contains(self.changes[i].spec_hash()) && self.incoming_actor_seqs@.contains((self.changes[i].spec_actor(), self.changes[i].spec_seq()))
        &&& forall|i: int, j: int| 0 <= i < j < self.changes.len() ==> (self.changes[i].spec_actor(), self.changes[i].spec_seq()) != (self.changes[j].spec_actor(), self.changes[j].spec_seq())
        &&& forall|a: ActorId, s: u64| #[trigger] self.incoming_actor_seqs@.contains((a, s)) ==> exists|i: int| self.at(i, a, s)
    }
    pub open spec fn at(&self, i: int, a: ActorId, s: u64) -> bool {
        0 <= i < self.changes.len() && self.changes[i].spec_actor() == a && self.changes[i].spec_seq() == s
    }

    pub(crate) fn push(&mut self, change: Change) -> (r: Result<(), AutomergeError>)
        requires old(self).wf(),
        ensures final(self).wf(),
            r is Err ==> final(self).changes@ == old(self).changes@ && final(self).hashes@ == old(self).hashes@ && final(self).incoming_actor_seqs@ == old(self).incoming_actor_seqs@,
            r is Err <==> (!old(self).hashes@.contains(change.spec_hash()) && old(self).incoming_actor_seqs@.contains((change.spec_actor(), change.spec_seq()))),
    {
        let hash = change.hash();
        if self.hashes.contains(&hash) {
            return Ok(());
        }

        let actor_seq = (change.actor_id().clone(), change.seq());
        if self.incoming_actor_seqs.contains(&actor_seq) {
            return Err(AutomergeError::DuplicateSeqNumber(
                change.seq(),
                change.actor_id().clone(),
            ));
        }

        self.hashes.insert(hash);
        self.incoming_actor_seqs.insert(actor_seq);
        self.changes.push(change);
        proof {
            let n = old(self).changes.len() as int;
            assert(self.changes@ == old(self).changes@.push(change));
            assert forall|a: ActorId, s: u64| #[trigger] self.incoming_actor_seqs@.contains((a, s)) implies exists|i: int| self.at(i, a, s) by {
                if (a, s) == actor_seq {
                    assert(self.at(n, a, s));
                } else {
                    assert(old(self).incoming_actor_seqs@.contains((a, s)));
                    let i = choose|i: int| old(self).at(i, a, s);
                    assert(self.at(i, a, s));
                }
            }
            assert forall|i: int, j: int| 0 <= i < j < self.changes.len() implies (self.changes[i].spec_actor(), self.changes[i].spec_seq()) != (self.changes[j].spec_actor(), self.changes[j].spec_seq()) by {
                if j == n {
                    // changes[i] is old; its pair is in the old set, the new pair is not
                    assert(old(self).incoming_actor_seqs@.contains((old(self).changes[i].spec_actor(), old(self).changes[i].spec_seq())));
                }
            }
        }
        Ok(())
    }
}
}
fn main() {}
