use vstd::prelude::*;
verus! {
// ---- assumed environment (stubs with assumed contracts) ----
#[verifier::external_body]
pub struct ActorId { _p: () }
pub enum ExId { Root, Id(u64, ActorId, usize) }
pub enum AutomergeError { InvalidObjId(String), Other }
pub struct OpId(pub u32, pub u32);
pub struct OpSet { pub x: u8 }
pub struct Automerge { pub ops: OpSet }

impl OpSet {
    #[verifier::external_body]
    pub fn get_actor_safe(&self, idx: usize) -> (r: Option<&ActorId>) ensures r is Some ==> idx <= u32::MAX { unimplemented!() }
    #[verifier::external_body]
    pub fn lookup_actor(&self, a: &ActorId) -> (r: Option<usize>) ensures r matches Some(i) ==> i <= u32::MAX { unimplemented!() }
}
#[verifier::external_body]
fn actor_eq(a: Option<&ActorId>, b: Option<&ActorId>) -> bool { unimplemented!() }
impl ExId {
    #[verifier::external_body]
    pub fn to_string(&self) -> String { unimplemented!() }
}
impl OpId {
    #[verifier::external_body]
    pub(crate) fn new(counter: u64, actor: usize) -> Self
        requires counter <= u32::MAX, actor <= u32::MAX
    { unimplemented!() }
}

impl Automerge {
    pub(crate) fn exid_to_opid(&self, id: &ExId) -> Result<OpId, AutomergeError> {
        match id {
            ExId::Root => Ok(OpId::new(0, 0)),
            ExId::Id(ctr, actor, idx) => {
                let opid = if actor_eq(self.ops.get_actor_safe(*idx), Some(actor)) {
                    OpId::new(*ctr, *idx)
                } else if let Some(backup_idx) = self.ops.lookup_actor(actor) {
                    OpId::new(*ctr, backup_idx)
                } else {
                    return Err(AutomergeError::InvalidObjId(id.to_string()));
                };
                Ok(opid)
            }
        }
    }
}
}
fn main() {}
