use vstd::prelude::*;
verus! {
// ---------- assumed environment ----------
#[verifier::external_body]
pub struct ActorId { _p: () }
impl PartialEq for ActorId { #[verifier::external_body] fn eq(&self, o: &Self) -> (r: bool) ensures r == (*self == *o) { unimplemented!() } }
impl Clone for ActorId { #[verifier::external_body] fn clone(&self) -> (r: Self) ensures r == *self { unimplemented!() } }
pub enum ExId { Root, Id(u64, ActorId, usize) }
impl ExId { #[verifier::external_body] pub fn to_string(&self) -> String { unimplemented!() } }
#[derive(Clone, PartialEq)]
pub enum MoveCursor { Before, After }
#[derive(Clone, PartialEq)]
pub struct OpCursor { pub ctr: u64, pub actor: ActorId, pub move_cursor: MoveCursor }
#[derive(Clone, PartialEq)]
pub enum Cursor { Start, End, Op(OpCursor) }
pub enum AutomergeError { InvalidObjId(String), InvalidCursor(Cursor), Other }
pub struct OpId(pub u32, pub u32);
pub struct Clock(pub Vec<u32>);
impl Clock {
    #[verifier::external_body]
    pub fn covers(&self, id: &OpId) -> bool { unimplemented!() }
}
pub struct OpSet { pub actors: Vec<ActorId> }
pub struct Automerge { pub ops: OpSet }

impl OpSet {
    // assumed: binary search over the sorted, duplicate-free actor table
    #[verifier::external_body]
    pub(crate) fn lookup_actor(&self, actor: &ActorId) -> (r: Option<usize>)
        ensures r matches Some(i) ==> i < self.actors.len() && self.actors[i as int] == *actor,
                r is None ==> forall|i: int| 0 <= i < self.actors.len() ==> self.actors[i] != *actor,
    { unimplemented!() }
}
impl OpId {
    pub open spec fn spec_counter(&self) -> u64 { self.0 as u64 }
    pub open spec fn spec_actor(&self) -> usize { self.1 as usize }
    // the two unwrap()s of the real OpId::new become its precondition
    #[verifier::external_body]
    pub(crate) fn new(counter: u64, actor: usize) -> (r: Self)
        requires counter <= u32::MAX, actor <= u32::MAX,
        ensures r.0 == counter, r.1 == actor,
    { unimplemented!() }
}
pub open spec fn table_fits(a: &Automerge) -> bool { a.ops.actors.len() <= u32::MAX }

// ---------- real text from /repo (verbatim) ----------
impl OpSet {
    pub(crate) fn get_actor_safe(&self, idx: usize) -> (r: Option<&ActorId>)
        ensures idx < self.actors.len() ==> r == Some(&self.actors[idx as int]), idx >= self.actors.len() ==> r is None
    {
        self.actors.get(idx)
    }
}
impl Automerge {
    pub(crate) fn exid_to_opid(&self, id: &ExId) -> (r: Result<OpId, AutomergeError>)
        requires table_fits(self),
        ensures
            id is Root ==> (r matches Ok(o) && o.0 == 0 && o.1 == 0),
            id matches ExId::Id(ctr, actor, idx) ==> (r matches Ok(o) ==> o.spec_counter() == ctr && o.spec_actor() < self.ops.actors.len() && self.ops.actors[o.spec_actor() as int] == actor),
            id matches ExId::Id(ctr, actor, idx) ==> ((forall|i: int| 0 <= i < self.ops.actors.len() ==> self.ops.actors[i] != actor) ==> r is Err),
    {
        match id {
            ExId::Root => Ok(OpId::new(0, 0)),
            ExId::Id(ctr, actor, idx) => {
                let opid = if self.ops.get_actor_safe(*idx) == Some(actor) {
                    OpId::new(*ctr, *idx)
                } else if let Some(backup_idx) = self.ops.lookup_actor(actor) {
                    OpId::new(*ctr, backup_idx)
                } else {
                    return Err(AutomergeError::InvalidObjId(id.to_string()));
                };
                Ok(opid)
            }
        }
    }

    pub(crate) fn op_cursor_to_opid(
        &self,
        cursor: &OpCursor,
        clock: Option<&Clock>,
    ) -> (r: Result<OpId, AutomergeError>)
        requires table_fits(self),
        ensures r matches Ok(o) ==> o.spec_counter() == cursor.ctr && o.spec_actor() < self.ops.actors.len() && self.ops.actors[o.spec_actor() as int] == cursor.actor,
    {
        if let Some(idx) = self.ops.lookup_actor(&cursor.actor) {
            let opid = OpId::new(cursor.ctr, idx);
            match clock {
                Some(clock) if !clock.covers(&opid) => {
                    Err(AutomergeError::InvalidCursor(Cursor::Op(cursor.clone())))
                }
                _ => Ok(opid),
            }
        } else {
            Err(AutomergeError::InvalidCursor(Cursor::Op(cursor.clone())))
        }
    }
}
}
fn main() {}
