use vstd::prelude::*;
use core::num::NonZeroUsize;
verus! {
pub type ParseResult<'a, O, E> = Result<(Input<'a>, O), ParseError<E>>;
#[derive(PartialEq, Clone, Copy)]
pub struct Input<'a> { pub bytes: &'a [u8], pub position: usize, pub original: &'a [u8] }
pub enum ParseError<E> { Error(E), Incomplete(Needed) }
pub enum Needed { Unknown, Size(NonZeroUsize) }
pub enum Error { Leb128TooLarge, Leb128Overlong, UnexpectedZero }

impl<'a> Input<'a> {
    pub fn new(bytes: &'a [u8]) -> (r: Self) ensures r.bytes@ == bytes@, r.position == 0, r.wf() { Self { bytes, position: 0, original: bytes } }
    pub open spec fn wf(&self) -> bool { self.position + self.bytes.len() <= usize::MAX }
    pub open spec fn advanced(&self, i: Input<'a>, k: int) -> bool {
        0 <= k <= self.bytes.len() && i.bytes@ == self.bytes@.subrange(k, self.bytes.len() as int) && i.position == self.position + k && i.original == self.original
    }
    fn take_n<E>(&self, n: usize) -> (r: ParseResult<'a, &'a [u8], E>)
        requires self.wf(),
        ensures n <= self.bytes.len() <==> r is Ok,
            r matches Ok((i, b)) ==> b@ == self.bytes@.subrange(0, n as int) && self.advanced(i, n as int) && i.wf(),
    {
        if let Some(need) = NonZeroUsize::new(n.saturating_sub(self.bytes.len())) {
            Err(ParseError::Incomplete(Needed::Size(need)))
        } else {
            let (result, remaining) = self.bytes.split_at(n);
            let new_input = Input {
                bytes: remaining,
                original: self.original,
                position: self.position + n,
            };
            Ok((new_input, result))
        }
    }

    fn take_1<E>(&self) -> (r: ParseResult<'a, u8, E>)
        requires self.wf(),
        ensures self.bytes.len() == 0 <==> r is Err,
            r is Err ==> r matches Err(ParseError::Incomplete(_)),
            r matches Ok((i, b)) ==> b == self.bytes[0] && self.advanced(i, 1) && i.wf(),
    {
        if let Some(need) = NonZeroUsize::new(1_usize.saturating_sub(self.bytes.len())) {
            Err(ParseError::Incomplete(Needed::Size(need)))
        } else {
            let (result, remaining) = self.bytes.split_at(1);
            let new_input = Input {
                bytes: remaining,
                original: self.original,
                position: self.position + 1,
            };
            Ok((new_input, result[0]))
        }
    }
}

pub(crate) fn take1<E>(input: Input<'_>) -> (r: ParseResult<'_, u8, E>)
    requires input.wf(),
    ensures input.bytes.len() == 0 <==> r is Err,
        r is Err ==> r matches Err(ParseError::Incomplete(_)),
        r matches Ok((i, b)) ==> b == input.bytes[0] && input.advanced(i, 1) && i.wf(),
{
    input.take_1()
}

pub(crate) fn take_n<E>(n: usize, input: Input<'_>) -> (r: ParseResult<'_, &[u8], E>)
    requires input.wf(),
    ensures n <= input.bytes.len() <==> r is Ok,
        r matches Ok((i, b)) ==> b@ == input.bytes@.subrange(0, n as int) && input.advanced(i, n as int) && i.wf(),
{
    input.take_n(n)
}
pub open spec fn all_cont(s: Seq<u8>, k: int) -> bool { forall|j: int| 0 <= j < k ==> #[trigger] s[j] >= 0x80 }

#[verifier::loop_isolation(false)]
pub(crate) fn leb128_u64<E>(input: Input<'_>) -> (r: ParseResult<'_, u64, E>)
where
    E: From<Error>,
    requires input.wf(),
    ensures
        // consumes 1..=10 bytes, the last one without continuation bit, the others with it
        r matches Ok((i, v)) ==> ({ let k = i.position - input.position; 1 <= k <= 10 && input.advanced(i, k) && all_cont(input.bytes@, k - 1) && input.bytes[k - 1] < 0x80 && i.wf() }),
        // Incomplete exactly when the input ends inside an encoding
        (r matches Err(ParseError::Incomplete(_))) ==> (input.bytes.len() < 10 && all_cont(input.bytes@, input.bytes.len() as int)),
        (input.bytes.len() < 10 && all_cont(input.bytes@, input.bytes.len() as int)) ==> (r matches Err(ParseError::Incomplete(_))),
{
    let mut res = 0;
    let mut shift = 0;
    let mut input = input;
    let ghost orig = input;
    let ghost mut k: int = 0;

    proof { assert(orig.bytes@.subrange(0, orig.bytes.len() as int) =~= orig.bytes@); }
    loop
        invariant
            0 <= k <= 9, shift == 7 * k, orig.wf(), input.wf(),
            orig.advanced(input, k), all_cont(orig.bytes@, k),
        decreases 10 - k,
    {
        let ghost prev = input;
        proof { assert(prev.bytes.len() == orig.bytes.len() - k); }
        let (i, byte) = take1(input)?;
        input = i;
        proof {
            assert(byte == orig.bytes[k]);
            assert(input.bytes@ =~= orig.bytes@.subrange(k + 1, orig.bytes.len() as int));
            assert(byte & 0x7F <= 0x7f) by (bit_vector);
            assert((byte & 0x80) == 0 <==> byte < 0x80) by (bit_vector);
        }
        res |= ((byte & 0x7F) as u64) << shift;
        shift += 7;
        proof { k = k + 1; }

        proof { assert(orig.bytes@[k - 1] == byte); assert(orig.advanced(input, k)); assert(all_cont(orig.bytes@, k - 1)); assert(1 <= k <= 10); assert(input.wf()); assert((byte & 0x80) == 0 ==> orig.bytes[k - 1] < 0x80); }
        if (byte & 0x80) == 0 {
            if shift > 64 && byte > 1 {
                return Err(ParseError::Error(Error::Leb128TooLarge.into()));
            } else if shift > 7 && byte == 0 {
                return Err(ParseError::Error(Error::Leb128Overlong.into()));
            }
            return Ok((input, res));
        } else if shift > 64 {
            return Err(ParseError::Error(Error::Leb128TooLarge.into()));
        }
    }
}

pub mod parse { pub use super::*; pub mod leb128 { pub use super::super::Error; } }
pub uninterp spec fn leb(n: nat) -> Seq<u8>;
pub mod leb128 { pub mod write {
    use vstd::prelude::*;
    verus!{
    #[verifier::external_body]
    pub fn unsigned(out: &mut Vec<u8>, n: u64) -> (r: Result<usize, ()>) ensures final(out)@ == old(out)@ + super::super::leb(n as nat), r is Ok { unimplemented!() }
    }
}}
#[verifier::external_body] pub struct ActorId { _p: () }
impl ActorId {
    pub uninterp spec fn view(&self) -> Seq<u8>;
    #[verifier::external_body] pub fn to_bytes(&self) -> (r: &[u8]) ensures r@ == self@ { unimplemented!() }
}
impl<'a> From<&'a [u8]> for ActorId { #[verifier::external_body] fn from(b: &'a [u8]) -> (r: Self) { unimplemented!() } }
impl Error { #[verifier::external_body] pub fn to_string(&self) -> String { unimplemented!() } }
impl<E> ParseError<E> { #[verifier::external_body] pub fn to_string(&self) -> String { unimplemented!() } }
pub enum ExId { Root, Id(u64, ActorId, usize) }
const SERIALIZATION_VERSION_TAG: u8 = 0;
const TYPE_ROOT: u8 = 0;
const TYPE_ID: u8 = 1;
pub enum ObjIdFromBytesError { NoVersion, InvalidVersion(u8), InvalidType(u8), ParseActorLen(String), ParseActor, ParseCounter(String), ParseActorIdxHint(String) }
impl ExId {
    pub fn to_bytes(&self) -> Vec<u8> {
        match self {
            ExId::Root => {
                let val: u8 = SERIALIZATION_VERSION_TAG | (TYPE_ROOT << 4);
                vec![val]
            }
            ExId::Id(id, actor, counter) => {
                let actor_bytes = actor.to_bytes();
                let mut bytes = Vec::with_capacity(actor_bytes.len() + 4 + 4);
                let tag = SERIALIZATION_VERSION_TAG | (TYPE_ID << 4);
                bytes.push(tag);
                leb128::write::unsigned(&mut bytes, actor_bytes.len() as u64).unwrap();
                bytes.extend_from_slice(actor_bytes);
                leb128::write::unsigned(&mut bytes, *counter as u64).unwrap();
                leb128::write::unsigned(&mut bytes, *id).unwrap();
                bytes
            }
        }
    }
}
impl<'a> TryFrom<&'a [u8]> for ExId {
    type Error = ObjIdFromBytesError;

    fn try_from(value: &'a [u8]) -> Result<Self, Self::Error> {
        let i = parse::Input::new(value);
        let (i, tag) = parse::take1::<()>(i).map_err(|_v0| ObjIdFromBytesError::NoVersion)?;
        let version = tag & 0b1111;
        if version != SERIALIZATION_VERSION_TAG {
            return Err(ObjIdFromBytesError::InvalidVersion(version));
        }
        let type_tag = tag >> 4;
        match type_tag {
            TYPE_ROOT => Ok(ExId::Root),
            TYPE_ID => {
                let (i, len) = parse::leb128_u64::<parse::leb128::Error>(i)
                    .map_err(|e| ObjIdFromBytesError::ParseActorLen(e.to_string()))?;
                let (i, actor) = parse::take_n::<()>(len as usize, i)
                    .map_err(|_v0| ObjIdFromBytesError::ParseActor)?;
                let (i, counter) = parse::leb128_u64::<parse::leb128::Error>(i)
                    .map_err(|e| ObjIdFromBytesError::ParseCounter(e.to_string()))?;
                let (_i, actor_idx_hint) = parse::leb128_u64::<parse::leb128::Error>(i)
                    .map_err(|e| ObjIdFromBytesError::ParseActorIdxHint(e.to_string()))?;
                Ok(Self::Id(actor_idx_hint, actor.into(), counter as usize))
            }
            other => Err(ObjIdFromBytesError::InvalidType(other)),
        }
    }
}
}
fn main() {}
