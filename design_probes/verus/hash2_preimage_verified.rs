use vstd::prelude::*;
verus! {
pub struct ChangeHash(pub [u8; 32]);
#[derive(Clone, Copy)]
pub enum ChunkType { Document, Change, Compressed, Bundle }
pub open spec fn ct_u8(ct: ChunkType) -> u8 { match ct { ChunkType::Document => 0, ChunkType::Change => 1, ChunkType::Compressed => 2, ChunkType::Bundle => 3 } }
impl vstd::std_specs::convert::FromSpecImpl<ChunkType> for u8 {
    open spec fn obeys_from_spec() -> bool { true }
    open spec fn from_spec(ct: ChunkType) -> u8 { ct_u8(ct) }
}
impl From<ChunkType> for u8 {
    fn from(ct: ChunkType) -> (r: Self) {
        match ct {
            ChunkType::Document => 0,
            ChunkType::Change => 1,
            ChunkType::Compressed => 2,
            ChunkType::Bundle => 3,
        }
    }
}
pub uninterp spec fn leb(n: nat) -> Seq<u8>;
pub uninterp spec fn sha256(s: Seq<u8>) -> Seq<u8>;
pub mod leb128 { pub mod write {
    use vstd::prelude::*;
    verus!{
    #[verifier::external_body]
    pub fn unsigned(out: &mut Vec<u8>, n: u64) -> (r: Result<usize, ()>) ensures final(out)@ == old(out)@ + super::super::leb(n as nat), r is Ok { unimplemented!() }
    }
}}
#[verifier::external_body]
pub struct Sha256 { _p: () }
pub struct Out32(pub [u8; 32]);
impl Sha256 {
    pub uninterp spec fn view(&self) -> Seq<u8>;
    #[verifier::external_body]
    pub fn new() -> (r: Sha256) ensures r@ == Seq::<u8>::empty() { unimplemented!() }
    #[verifier::external_body]
    pub fn update(&mut self, d: &[u8]) ensures final(self)@ == old(self)@ + d@ { unimplemented!() }
    #[verifier::external_body]
    pub fn finalize(self) -> (r: Out32) ensures r.0@ == sha256(self@) { unimplemented!() }
}
impl Out32 { pub fn into(self) -> (r: [u8; 32]) ensures r == self.0 { self.0 } }

fn hash(typ: ChunkType, data: &[u8]) -> (r: ChangeHash)
    ensures r.0@ == sha256(seq![ct_u8(typ)] + leb(data.len() as nat) + data@)
{
    let mut header = Vec::with_capacity(5);
    header.push(u8::from(typ));
    leb128::write::unsigned(&mut header, data.len() as u64).unwrap();
    let mut hasher = Sha256::new();
    hasher.update(&header);
    hasher.update(data);
    let hash_result = hasher.finalize();
    let array: [u8; 32] = hash_result.into();
    ChangeHash(array)
}
}
fn main() {}
