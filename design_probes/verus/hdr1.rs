use vstd::prelude::*;
use core::num::NonZeroUsize;
verus! {
pub type ParseResult<'a, O, E> = Result<(Input<'a>, O), ParseError<E>>;
#[derive(PartialEq, Clone, Copy)]
pub struct Input<'a> { pub bytes: &'a [u8], pub position: usize, pub original: &'a [u8] }
pub enum ParseError<E> { Error(E), Incomplete(Needed) }
pub enum Needed { Unknown, Size(NonZeroUsize) }
pub struct RangeOf<T> { pub range: std::ops::Range<usize>, pub value: T }

pub(crate) trait Parser<'a, O, E> {
    fn parse(&mut self, input: Input<'a>) -> ParseResult<'a, O, E>;
}

impl<'a, O, F, E> Parser<'a, O, E> for F
where
    F: FnMut(Input<'a>) -> ParseResult<'a, O, E>,
{
    fn parse(&mut self, input: Input<'a>) -> ParseResult<'a, O, E> {
        (self)(input)
    }
}

impl<'a> Input<'a> {
    fn range_of<P, R, E>(&self, mut parser: P) -> ParseResult<'a, RangeOf<R>, E>
    where
        P: Parser<'a, R, E>,
    {
        let (new_input, value) = parser.parse(*self)?;
        let range = self.position..new_input.position;
        Ok((new_input, RangeOf { range, value }))
    }
}
}
fn main() {}
