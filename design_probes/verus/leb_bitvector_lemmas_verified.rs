use vstd::prelude::*;
verus! {
pub open spec fn p128(k: nat) -> nat decreases k { if k == 0 { 1 } else { 128 * p128((k - 1) as nat) } }
pub open spec fn valk(s: Seq<u8>, k: nat) -> nat decreases k {
    if k == 0 { 0 } else { valk(s, (k - 1) as nat) + (s[k - 1] as nat % 128) * p128((k - 1) as nat) }
}
proof fn lemma_p128_shift(k: nat)
    requires k <= 9
    ensures p128(k) == (1u64 << ((7 * k) as u64)) as nat, k <= 8 ==> p128(k) * 128 <= 0x8000_0000_0000_0000,
{
    reveal_with_fuel(p128, 11);
    assert((1u64 << 0u64) == 1) by (bit_vector);
    assert((1u64 << 7u64) == 128) by (bit_vector);
    assert((1u64 << 14u64) == 16384) by (bit_vector);
    assert((1u64 << 21u64) == 2097152) by (bit_vector);
    assert((1u64 << 28u64) == 268435456) by (bit_vector);
    assert((1u64 << 35u64) == 34359738368) by (bit_vector);
    assert((1u64 << 42u64) == 4398046511104) by (bit_vector);
    assert((1u64 << 49u64) == 562949953421312) by (bit_vector);
    assert((1u64 << 56u64) == 72057594037927936) by (bit_vector);
    assert((1u64 << 63u64) == 9223372036854775808) by (bit_vector);
}
proof fn lemma_or_add(res: u64, b: u8, s: u64)
    requires s <= 56, res < (1u64 << s),
    ensures (res | (((b & 0x7F) as u64) << s)) == res + ((b & 0x7F) as u64) * (1u64 << s),
        (res | (((b & 0x7F) as u64) << s)) < (1u64 << ((s + 7) as u64)),
        (b & 0x7F) as nat == b as nat % 128,
{
    assert((res | (((b & 0x7F) as u64) << s)) == res + ((b & 0x7F) as u64) * (1u64 << s)) by (bit_vector) requires s <= 56, res < (1u64 << s);
    assert((res | (((b & 0x7F) as u64) << s)) < (1u64 << ((s + 7) as u64))) by (bit_vector) requires s <= 56, res < (1u64 << s);
    assert((b & 0x7F) == b % 128) by (bit_vector);
}
}
fn main() {}
