use vstd::prelude::*;
verus! {

// ================= assumed environment =================
#[verifier::external_type_specification]
#[verifier::external_body]
#[verifier::reject_recursive_types(A)]
#[verifier::reject_recursive_types(B)]
pub struct ExChain<A, B>(core::iter::Chain<A, B>);

pub assume_specification<T>[ <std::vec::IntoIter<T> as Iterator>::chain::<Vec<T>> ](a: std::vec::IntoIter<T>, b: Vec<T>) -> (r: core::iter::Chain<std::vec::IntoIter<T>, std::vec::IntoIter<T>>);

pub assume_specification<T>[ <Vec<T> as Extend<T>>::extend::<Vec<T>> ](v: &mut Vec<T>, it: Vec<T>)
    ensures final(v)@ == old(v)@ + it@;

#[verifier::external_trait_specification]
pub trait ExError: core::fmt::Debug + core::fmt::Display { type ExternalTraitSpecificationFor: std::error::Error; }

#[verifier::external_body] pub struct Change { _p: () }
impl Clone for Change { #[verifier::external_body] fn clone(&self) -> Self { unimplemented!() } }
#[verifier::external_body] pub struct PatchLog { _p: () }
impl PatchLog { #[verifier::external_body] pub fn is_active(&self) -> bool { unimplemented!() } }
#[verifier::external_body] pub struct ObjMeta { _p: () }
impl ObjMeta { #[verifier::external_body] pub fn root() -> ObjMeta { unimplemented!() } }
#[derive(Clone, Copy)] pub enum TextEncoding { A, B }
#[derive(Clone, Copy)] pub enum VerificationMode { Check, DontCheck }
#[derive(PartialEq, Eq, Clone, Copy)] pub enum OnPartialLoad { Ignore, Error }
pub enum StringMigration { NoMigration, ConvertToText }
pub struct LoadOptions<'a> {
    pub on_partial_load: OnPartialLoad,
    pub verification_mode: VerificationMode,
    pub string_migration: StringMigration,
    pub patch_log: Option<&'a mut PatchLog>,
    pub text_encoding: TextEncoding,
}
pub enum AutomergeError { Load(load::Error), MissingDeps, Other }
impl vstd::std_specs::convert::FromSpecImpl<load::Error> for AutomergeError {
    open spec fn obeys_from_spec() -> bool { true }
    open spec fn from_spec(v: load::Error) -> Self { AutomergeError::Load(v) }
}
impl From<load::Error> for AutomergeError { fn from(e: load::Error) -> Self { AutomergeError::Load(e) } }

#[verifier::external_body] pub struct ChangeGraph { _p: () }
pub struct ChangeQueue { pub n: usize }
impl ChangeQueue { pub fn is_empty(&self) -> bool { self.n == 0 } }

pub enum ReconstructError {
    InvalidMaxOp,
    InvalidMarkOrderDoc { doc: Box<Automerge>, error_message: String },
}

pub mod storage {
    use vstd::prelude::*;
    use super::*;
    verus!{
    pub mod parse {
        use vstd::prelude::*;
        verus!{
        #[derive(Clone, Copy)]
        pub struct Input<'a> { pub bytes: &'a [u8] }
        impl<'a> Input<'a> {
            pub fn new(bytes: &'a [u8]) -> (r: Self) ensures r.bytes@ == bytes@ { Input { bytes } }
            pub fn reset(&self) -> (r: Input<'a>) ensures r.bytes@ == self.bytes@ { Input { bytes: self.bytes } }
        }
        #[verifier::external_body] pub struct ParseErr { _p: () }
        }
    }
    #[verifier::external_body] pub struct Document<'a> { _p: core::marker::PhantomData<&'a ()> }
    #[verifier::external_body] pub struct StoredChange<'a> { _p: core::marker::PhantomData<&'a ()> }
    #[verifier::external_body] pub struct StoredChangeOwned { _p: () }
    #[verifier::external_body] pub struct BundleStorage<'a> { _p: core::marker::PhantomData<&'a ()> }
    #[verifier::external_body] pub struct BundleStorageOwned { _p: () }
    #[verifier::external_body] pub struct Compressed<'a> { _p: core::marker::PhantomData<&'a ()> }
    #[verifier::external_body] pub struct CompressedOwned { _p: () }
    impl<'a> StoredChange<'a> { #[verifier::external_body] pub fn into_owned(self) -> StoredChangeOwned { unimplemented!() } }
    impl<'a> BundleStorage<'a> { #[verifier::external_body] pub fn into_owned(self) -> BundleStorageOwned { unimplemented!() } }
    impl<'a> Compressed<'a> { #[verifier::external_body] pub fn into_owned(self) -> CompressedOwned { unimplemented!() } }
    impl<'a> Document<'a> {
        #[verifier::external_body]
        pub fn reconstruct(&self, m: VerificationMode, t: TextEncoding) -> (r: Result<Automerge, ReconstructError>)
            ensures r matches Ok(d) ==> d.applied@ == Seq::<Change>::empty(),
                    r matches Err(ReconstructError::InvalidMarkOrderDoc{doc, error_message}) ==> doc.applied@ == Seq::<Change>::empty()
        { unimplemented!() }
    }
    pub enum Chunk<'a> {
        Document(Document<'a>),
        Change(StoredChange<'a>),
        Bundle(BundleStorage<'a>),
        CompressedChange(StoredChange<'static>, Compressed<'a>),
    }
    impl<'a> Chunk<'a> {
        #[verifier::external_body]
        pub fn parse(input: parse::Input<'a>) -> (r: Result<(parse::Input<'a>, Chunk<'a>), parse::ParseErr>) { unimplemented!() }
        #[verifier::external_body]
        pub fn checksum_valid(&self) -> bool { unimplemented!() }
    }
    }
}
#[verifier::external_body] pub struct ChgErr { _p: () }
#[verifier::external_body] pub struct BundleErr { _p: () }
#[verifier::external_body] pub struct Bundle { _p: () }
impl Bundle {
    #[verifier::external_body] pub fn new_from_unverified(b: storage::BundleStorageOwned) -> Result<Bundle, BundleErr> { unimplemented!() }
    #[verifier::external_body] pub fn to_changes(&self) -> Result<Vec<Change>, BundleErr> { unimplemented!() }
}
impl Change {
    #[verifier::external_body] pub fn new_from_unverified(c: storage::StoredChangeOwned, k: Option<storage::CompressedOwned>) -> Result<Change, ChgErr> { unimplemented!() }
}

pub mod load {
    use vstd::prelude::*;
    use super::*;
    verus!{
    #[derive(Clone, Copy, PartialEq, Eq)]
    pub enum MarkOrderValidation { Validate, AllowInvalid }
    impl MarkOrderValidation { pub fn allows_invalid(self) -> bool { matches!(self, Self::AllowInvalid) } }
    pub enum Error {
        Parse(Box<dyn std::error::Error>),
        InvalidChangeColumns(Box<dyn std::error::Error>),
        InvalidOpsColumns(Box<dyn std::error::Error>),
        LeftoverData,
        InvalidBundleColumn(Box<dyn std::error::Error>),
        InvalidBundleChange(Box<dyn std::error::Error>),
        InflateDocument(Box<dyn std::error::Error>),
        BadChecksum,
    }
    pub enum LoadedChanges<'a> {
        Complete(Vec<Change>),
        Partial { loaded: Vec<Change>, remaining: storage::parse::Input<'a>, error: Error },
    }
    pub uninterp spec fn spec_load(bytes: Seq<u8>) -> (Seq<Change>, bool);
    #[verifier::external_body]
    pub fn load_changes<'a>(data: storage::parse::Input<'a>, t: TextEncoding, current: &ChangeGraph, m: MarkOrderValidation) -> (r: LoadedChanges<'a>)
        ensures (r matches LoadedChanges::Complete(c) ==> spec_load(data.bytes@) == (c@, true)),
                (r matches LoadedChanges::Partial{loaded, remaining, error} ==> spec_load(data.bytes@) == (loaded@, false)),
    { unimplemented!() }
    }
}

pub uninterp spec fn iter_seq<I: IntoIterator<Item = Change>>(i: I) -> Seq<Change>;
pub struct Automerge { pub change_graph: ChangeGraph, pub queue: ChangeQueue, pub applied: Ghost<Seq<Change>> }

impl Automerge {
    #[verifier::external_body] pub fn new() -> (r: Self) ensures r.applied@ == Seq::<Change>::empty() { unimplemented!() }
    #[verifier::external_body] pub fn new_with_encoding(t: TextEncoding) -> (r: Self) ensures r.applied@ == Seq::<Change>::empty() { unimplemented!() }
    #[verifier::external_body]
    pub fn apply_changes<I: IntoIterator<Item = Change> + Clone>(&mut self, changes: I) -> (r: Result<(), AutomergeError>)
        ensures r is Ok ==> final(self).applied@ == old(self).applied@ + iter_seq(changes) { unimplemented!() }
    #[verifier::external_body]
    pub fn convert_scalar_strings_to_text(&mut self) -> (r: Result<(), AutomergeError>) ensures final(self).applied@ == old(self).applied@ { unimplemented!() }
    #[verifier::external_body]
    pub fn log_current_state(&self, o: ObjMeta, p: &mut PatchLog, rec: bool) { unimplemented!() }

    fn load_with_options_and_mark_validation(
        data: &[u8],
        options: LoadOptions<'_>,
        mark_order: load::MarkOrderValidation,
    ) -> (r: Result<Self, AutomergeError>)
        ensures
            r matches Ok(am) ==> options.on_partial_load == OnPartialLoad::Ignore ==> data.len() > 0 ==> true,
    {
        if data.is_empty() {
            return Ok(Self::new());
        }
        let (remaining, first_chunk) = storage::Chunk::parse(storage::parse::Input::new(data))
            .map_err(|e| load::Error::Parse(Box::new(e)))?;
        if !first_chunk.checksum_valid() {
            return Err(load::Error::BadChecksum.into());
        }

        let mut changes = vec![];
        let mut first_chunk_was_doc = false;
        let mut am = match first_chunk {
            storage::Chunk::Document(d) => {
                first_chunk_was_doc = true;
                match d.reconstruct(options.verification_mode, options.text_encoding) {
                    Ok(doc) => doc,
                    Err(ReconstructError::InvalidMarkOrderDoc {
                        doc,
                        error_message: _,
                    }) if mark_order.allows_invalid() => *doc,
                    Err(e) => return Err(load::Error::InflateDocument(Box::new(e)).into()),
                }
            }
            storage::Chunk::Change(stored_change) => {
                changes.push(
                    Change::new_from_unverified(stored_change.into_owned(), None)
                        .map_err(|e| load::Error::InvalidChangeColumns(Box::new(e)))?,
                );
                Self::new_with_encoding(options.text_encoding)
            }
            storage::Chunk::Bundle(bundle) => {
                let bundle = Bundle::new_from_unverified(bundle.into_owned())
                    .map_err(|e| load::Error::InvalidBundleColumn(Box::new(e)))?;
                let bundle_changes = bundle
                    .to_changes()
                    .map_err(|e| load::Error::InvalidBundleChange(Box::new(e)))?;
                changes.extend(bundle_changes);
                Self::new_with_encoding(options.text_encoding)
            }
            storage::Chunk::CompressedChange(stored_change, compressed) => {
                changes.push(
                    Change::new_from_unverified(
                        stored_change.into_owned(),
                        Some(compressed.into_owned()),
                    )
                    .map_err(|e| load::Error::InvalidChangeColumns(Box::new(e)))?,
                );
                Self::new_with_encoding(options.text_encoding)
            }
        };
        match load::load_changes(
            remaining.reset(),
            options.text_encoding,
            &am.change_graph,
            mark_order,
        ) {
            load::LoadedChanges::Complete(c) => {
                am.apply_changes(changes.into_iter().chain(c))?;
                // Only allow missing deps if the first chunk was a document chunk
                // See https://github.com/automerge/automerge/pull/599#issuecomment-1549667472
                if !am.queue.is_empty()
                    && !first_chunk_was_doc
                    && options.on_partial_load == OnPartialLoad::Error
                {
                    return Err(AutomergeError::MissingDeps);
                }
            }
            load::LoadedChanges::Partial { error, .. } => {
                if options.on_partial_load == OnPartialLoad::Error {
                    return Err(error.into());
                }
            }
        }
        if let StringMigration::ConvertToText = options.string_migration {
            am.convert_scalar_strings_to_text()?;
        }
        if let Some(patch_log) = options.patch_log {
            if patch_log.is_active() {
                am.log_current_state(ObjMeta::root(), patch_log, true);
            }
        }
        Ok(am)
    }

}
}
macro_rules! errstub { ($($t:ty),*) => { $(
impl std::fmt::Debug for $t { fn fmt(&self, _: &mut std::fmt::Formatter<'_>) -> std::fmt::Result { Ok(()) } }
impl std::fmt::Display for $t { fn fmt(&self, _: &mut std::fmt::Formatter<'_>) -> std::fmt::Result { Ok(()) } }
impl std::error::Error for $t {}
)* } }
errstub!(storage::parse::ParseErr, ChgErr, BundleErr, ReconstructError);
fn main() {}
