use vstd::prelude::*;
use core::num::NonZeroUsize;
verus! {

pub type ParseResult<'a, O, E> = Result<(Input<'a>, O), ParseError<E>>;

#[derive(PartialEq, Clone, Copy)]
pub struct Input<'a> {
    pub bytes: &'a [u8],
    pub position: usize,
    pub original: &'a [u8],
}

pub enum ParseError<E> {
    Error(E),
    Incomplete(Needed),
}
pub enum Needed {
    Unknown,
    Size(NonZeroUsize),
}

pub enum Error {
    Leb128TooLarge,
    Leb128Overlong,
    UnexpectedZero,
}

impl<'a> Input<'a> {
    fn take_1<E>(&self) -> (r: ParseResult<'a, u8, E>)
        requires self.position + self.bytes.len() <= usize::MAX,
        ensures self.bytes.len() == 0 <==> r is Err,
            r matches Ok((i, b)) ==> b == self.bytes[0] && i.bytes@ == self.bytes@.subrange(1, self.bytes.len() as int) && i.position == self.position + 1 && i.original == self.original,
    {
        if let Some(need) = NonZeroUsize::new(1_usize.saturating_sub(self.bytes.len())) {
            Err(ParseError::Incomplete(Needed::Size(need)))
        } else {
            let (result, remaining) = self.bytes.split_at(1);
            let new_input = Input {
                bytes: remaining,
                original: self.original,
                position: self.position + 1,
            };
            Ok((new_input, result[0]))
        }
    }
}

pub(crate) fn take1<E>(input: Input<'_>) -> ParseResult<'_, u8, E> {
    input.take_1()
}

pub(crate) fn leb128_u64<E>(input: Input<'_>) -> ParseResult<'_, u64, E>
where
    E: From<Error>,
{
    let mut res = 0;
    let mut shift = 0;
    let mut input = input;

    loop
        invariant shift % 7 == 0, shift <= 63,
        decreases 70 - shift,
    {
        let (i, byte) = take1(input)?;
        input = i;
        res |= ((byte & 0x7F) as u64) << shift;
        shift += 7;

        if (byte & 0x80) == 0 {
            if shift > 64 && byte > 1 {
                return Err(ParseError::Error(Error::Leb128TooLarge.into()));
            } else if shift > 7 && byte == 0 {
                return Err(ParseError::Error(Error::Leb128Overlong.into()));
            }
            return Ok((input, res));
        } else if shift > 64 {
            return Err(ParseError::Error(Error::Leb128TooLarge.into()));
        }
    }
}
}
fn main() {}
