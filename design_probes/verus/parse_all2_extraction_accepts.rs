use vstd::prelude::*;
use core::num::NonZeroUsize;
use std::num::NonZeroU64;
use std::convert::TryInto;
verus! {
pub type ParseResult<'a, O, E> = Result<(Input<'a>, O), ParseError<E>>;
#[derive(PartialEq, Clone, Copy)]
pub struct Input<'a> { pub bytes: &'a [u8], pub position: usize, pub original: &'a [u8] }
pub enum ParseError<E> { Error(E), Incomplete(Needed) }
pub enum Needed { Unknown, Size(NonZeroUsize) }
pub enum Error { Leb128TooLarge, Leb128Overlong, UnexpectedZero }
pub struct RangeOf<T> { pub range: std::ops::Range<usize>, pub value: T }
pub struct Split<'a> { pub first: Input<'a>, pub remaining: Input<'a> }
pub struct InvalidUtf8;
pub struct ChangeHash(pub [u8; 32]);
#[verifier::external_body] pub struct ActorId { _p: () }
const HASH_SIZE: usize = 32;
#[verifier::external_type_specification]
#[verifier::external_body]
pub struct ExTryFromSliceError(core::array::TryFromSliceError);
#[verifier::external_type_specification]
#[verifier::external_body]
pub struct ExFromUtf8Error(std::string::FromUtf8Error);
pub uninterp spec fn valid_utf8(s: Seq<u8>) -> bool;
pub assume_specification[ String::from_utf8 ](v: Vec<u8>) -> (r: Result<String, std::string::FromUtf8Error>)
    ensures r is Ok <==> valid_utf8(v@);
pub assume_specification<T: Clone>[ <[T]>::to_vec ](s: &[T]) -> (r: Vec<T>) ensures r@ == s@;

#[derive(Debug)] pub struct HashLenErr;
impl<'a> TryFrom<&'a [u8]> for ChangeHash {
    type Error = HashLenErr;
    #[verifier::external_body]
    fn try_from(b: &'a [u8]) -> (r: Result<Self, HashLenErr>) ensures b.len() == 32 <==> r is Ok { unimplemented!() }
}
impl<'a> From<&'a [u8]> for ActorId { #[verifier::external_body] fn from(b: &'a [u8]) -> Self { unimplemented!() } }

pub(crate) trait Parser<'a, O, E> { fn parse(&mut self, input: Input<'a>) -> ParseResult<'a, O, E>; }
impl<E> ParseError<E> {
    pub(crate) fn lift<F>(self) -> ParseError<F> where F: From<E> {
        match self { Self::Error(e) => ParseError::Error(F::from(e)), Self::Incomplete(n) => ParseError::Incomplete(n) }
    }
}
impl<'a> Input<'a> {
    pub(crate) fn new(bytes: &'a [u8]) -> Self {
        Self {
            bytes,
            position: 0,
            original: bytes,
        }
    }


    pub(crate) fn empty() -> Self {
        Self {
            bytes: &[],
            position: 0,
            original: &[],
        }
    }

    fn take_1<E>(&self) -> ParseResult<'a, u8, E> {
        if let Some(need) = NonZeroUsize::new(1_usize.saturating_sub(self.bytes.len())) {
            Err(ParseError::Incomplete(Needed::Size(need)))
        } else {
            let (result, remaining) = self.bytes.split_at(1);
            let new_input = Input {
                bytes: remaining,
                original: self.original,
                position: self.position + 1,
            };
            Ok((new_input, result[0]))
        }
    }

    fn take_n<E>(&self, n: usize) -> ParseResult<'a, &'a [u8], E> {
        if let Some(need) = NonZeroUsize::new(n.saturating_sub(self.bytes.len())) {
            Err(ParseError::Incomplete(Needed::Size(need)))
        } else {
            let (result, remaining) = self.bytes.split_at(n);
            let new_input = Input {
                bytes: remaining,
                original: self.original,
                position: self.position + n,
            };
            Ok((new_input, result))
        }
    }

    fn take_4<E>(&self) -> ParseResult<'a, [u8; 4], E> {
        if let Some(need) = NonZeroUsize::new(4_usize.saturating_sub(self.bytes.len())) {
            Err(ParseError::Incomplete(Needed::Size(need)))
        } else {
            let (result, remaining) = self.bytes.split_at(4);
            let new_input = Input {
                bytes: remaining,
                original: self.original,
                position: self.position + 4,
            };
            Ok((new_input, result.try_into().expect("we checked the length")))
        }
    }

    fn range_of<P, R, E>(&self, mut parser: P) -> ParseResult<'a, RangeOf<R>, E>
    where
        P: Parser<'a, R, E>,
    {
        let (new_input, value) = parser.parse(*self)?;
        let range = self.position..new_input.position;
        Ok((new_input, RangeOf { range, value }))
    }

    fn rest<E>(&self) -> ParseResult<'a, &'a [u8], E> {
        let position = self.position + self.bytes.len();
        let new_input = Self {
            position,
            original: self.original,
            bytes: &[],
        };
        Ok((new_input, self.bytes))
    }

    fn truncate(&self, length: usize) -> Input<'a> {
        let length = if length > self.bytes.len() {
            self.bytes.len()
        } else {
            length
        };
        Input {
            bytes: &self.bytes[..length],
            position: self.position,
            original: &self.original[..(self.position + length)],
        }
    }

    fn skip(&self, length: usize) -> Input<'a> {
        if length > self.bytes.len() {
            Input {
                bytes: &[],
                position: self.bytes.len(),
                original: self.original,
            }
        } else {
            Input {
                bytes: &self.bytes[length..],
                position: self.position + length,
                original: &self.original[(self.position + length)..],
            }
        }
    }

    pub(crate) fn split(&self, length: usize) -> Split<'a> {
        Split {
            first: self.truncate(length),
            remaining: self.skip(length),
        }
    }

    pub(crate) fn reset(&self) -> Input<'a> {
        Input::new(self.bytes)
    }

    pub(crate) fn is_empty(&self) -> bool {
        self.bytes.is_empty()
    }

    pub(crate) fn unconsumed_bytes(&self) -> &'a [u8] {
        self.bytes
    }

    
    pub(crate) fn bytes(&self) -> &'a [u8] {
        self.original
    }
}

pub(crate) fn take1<E>(input: Input<'_>) -> ParseResult<'_, u8, E> {
    input.take_1()
}

pub(crate) fn take4<E>(input: Input<'_>) -> ParseResult<'_, [u8; 4], E> {
    input.take_4()
}

pub(crate) fn take_n<E>(n: usize, input: Input<'_>) -> ParseResult<'_, &[u8], E> {
    input.take_n(n)
}

pub(crate) fn length_prefixed_bytes<E>(input: Input<'_>) -> ParseResult<'_, &[u8], E>
where
    E: From<Error>,
{
    let (i, len) = leb128_u64(input).map_err(|e| e.lift())?;
    take_n(len as usize, i)
}

pub(crate) fn change_hash<E>(input: Input<'_>) -> ParseResult<'_, ChangeHash, E> {
    let (i, bytes) = take_n(HASH_SIZE, input)?;
    let byte_arr: ChangeHash = bytes.try_into().expect("we checked the length above");
    Ok((i, byte_arr))
}

pub(crate) fn utf_8<E>(len: usize, input: Input<'_>) -> ParseResult<'_, String, E>
where
    E: From<InvalidUtf8>,
{
    let (i, bytes) = take_n(len, input)?;
    let result = String::from_utf8(bytes.to_vec())
        .map_err(|_v0| ParseError::Error(InvalidUtf8))
        .map_err(|e| e.lift())?;
    Ok((i, result))
}

pub(crate) fn take_rest<E>(input: Input<'_>) -> ParseResult<'_, &'_ [u8], E> {
    input.rest()
}

pub(crate) fn leb128_u64<E>(input: Input<'_>) -> ParseResult<'_, u64, E>
where
    E: From<Error>,
{
    let mut res = 0;
    let mut shift = 0;
    let mut input = input;

    loop {
        let (i, byte) = take1(input)?;
        input = i;
        res |= ((byte & 0x7F) as u64) << shift;
        shift += 7;

        if (byte & 0x80) == 0 {
            if shift > 64 && byte > 1 {
                return Err(ParseError::Error(Error::Leb128TooLarge.into()));
            } else if shift > 7 && byte == 0 {
                return Err(ParseError::Error(Error::Leb128Overlong.into()));
            }
            return Ok((input, res));
        } else if shift > 64 {
            return Err(ParseError::Error(Error::Leb128TooLarge.into()));
        }
    }
}

pub(crate) fn leb128_i64<E>(input: Input<'_>) -> ParseResult<'_, i64, E>
where
    E: From<Error>,
{
    let mut res = 0;
    let mut shift = 0;

    let mut input = input;
    let mut prev = 0;
    loop {
        let (i, byte) = take1(input)?;
        input = i;
        res |= ((byte & 0x7F) as i64) << shift;
        shift += 7;

        if (byte & 0x80) == 0 {
            if shift > 64 && byte != 0 && byte != 0x7f {
                return Err(ParseError::Error(Error::Leb128TooLarge.into()));
            } else if shift > 7
                && ((byte == 0 && prev & 0x40 == 0) || (byte == 0x7f && prev & 0x40 > 0))
            {
                return Err(ParseError::Error(Error::Leb128Overlong.into()));
            } else if shift < 64 && byte & 0x40 > 0 {
                res |= -1 << shift;
            }
            return Ok((input, res));
        } else if shift > 64 {
            return Err(ParseError::Error(Error::Leb128TooLarge.into()));
        }
        prev = byte;
    }
}

pub(crate) fn leb128_u32<E>(input: Input<'_>) -> ParseResult<'_, u32, E>
where
    E: From<Error>,
{
    let (i, num) = leb128_u64(input)?;
    let result = u32::try_from(num).map_err(|_v0| ParseError::Error(Error::Leb128TooLarge.into()))?;
    Ok((i, result))
}

pub(crate) fn nonzero_leb128_u64<E>(input: Input<'_>) -> ParseResult<'_, NonZeroU64, E>
where
    E: From<Error>,
{
    let (input, num) = leb128_u64(input)?;
    let result =
        NonZeroU64::new(num).ok_or_else(|| ParseError::Error(Error::UnexpectedZero.into()))?;
    Ok((input, result))
}
}
fn main() {}
