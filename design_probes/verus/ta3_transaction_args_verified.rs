use vstd::prelude::*;
use core::num::NonZeroU64;
verus! {
pub assume_specification<T: Clone>[ <[T]>::to_vec ](s: &[T]) -> (r: Vec<T>) ensures r@ == s@;
pub assume_specification<T: PartialEq>[ <[T]>::contains ](s: &[T], x: &T) -> (r: bool) ensures r == s@.contains(*x);
#[derive(PartialEq, Eq, Clone, Copy)]
pub struct ChangeHash(pub [u8; 32]);
#[verifier::external_body]
pub struct ActorId { _p: () }
impl Clone for ActorId { #[verifier::external_body] fn clone(&self) -> (r: ActorId) ensures r == *self { unimplemented!() } }
#[derive(Debug)]
pub enum AutomergeError { InvalidSeq(u64), Other }
#[verifier::external_body]
pub struct Clock { _p: () }
pub struct Isolation { pub actor_index: usize, pub seq: u64, pub clock: Clock }

pub struct ChangeGraph { pub g: Ghost<int> }
impl ChangeGraph {
    pub uninterp spec fn spec_seq(&self, actor: usize) -> u64;
    pub uninterp spec fn spec_heads(&self) -> Seq<ChangeHash>;
    pub uninterp spec fn spec_hash(&self, actor: usize, seq: u64) -> ChangeHash;
    pub uninterp spec fn spec_max_op(&self) -> u64;
    #[verifier::external_body]
    pub fn seq_for_actor(&self, actor: usize) -> (r: u64) ensures r == self.spec_seq(actor), r < u32::MAX { unimplemented!() }
    #[verifier::external_body]
    pub fn max_op(&self) -> (r: u64) ensures r == self.spec_max_op(), r <= u32::MAX { unimplemented!() }
}
pub struct OpSet { pub actors: Vec<ActorId> }
#[verifier::external_body]
pub struct ChangeQueue { _p: () }
impl ChangeQueue {
    pub uninterp spec fn dropped(&self, a: ActorId, seq: u64) -> bool;
    #[verifier::external_body]
    pub fn remove_actor_branch_from(&mut self, actor: &ActorId, seq: u64) ensures final(self).dropped(*actor, seq) { unimplemented!() }
}
pub struct TransactionArgs { pub actor_index: usize, pub seq: u64, pub start_op: NonZeroU64, pub deps: Vec<ChangeHash>, pub scope: Option<Clock> }

pub struct Automerge { pub ops: OpSet, pub change_graph: ChangeGraph, pub queue: ChangeQueue }

impl Automerge {
    pub open spec fn spec_heads(&self) -> Seq<ChangeHash> { self.change_graph.spec_heads() }
    pub open spec fn spec_hash(&self, actor: usize, seq: u64) -> ChangeHash { self.change_graph.spec_hash(actor, seq) }
    #[verifier::external_body]
    pub fn get_heads(&self) -> (r: Vec<ChangeHash>) ensures r@ == self.spec_heads() { unimplemented!() }
    #[verifier::external_body]
    pub fn get_hash(&self, actor: usize, seq: u64) -> (r: Result<ChangeHash, AutomergeError>) ensures 1 <= seq <= self.change_graph.spec_seq(actor) ==> r == Ok::<ChangeHash, AutomergeError>(self.spec_hash(actor, seq)) { unimplemented!() }
    #[verifier::external_body]
    pub fn get_or_create_actor_index(&mut self) -> (r: usize) ensures r < final(self).ops.actors.len(), final(self).change_graph == old(self).change_graph, final(self).queue == old(self).queue { unimplemented!() }
    #[verifier::external_body]
    pub fn isolate_actor(&mut self, heads: &[ChangeHash]) -> (r: Isolation) ensures r.actor_index < final(self).ops.actors.len(), final(self).change_graph == old(self).change_graph, final(self).queue == old(self).queue { unimplemented!() }

    pub(crate) fn transaction_args(&mut self, heads: Option<&[ChangeHash]>) -> (r: TransactionArgs)
        ensures
            r.start_op.get() == final(self).change_graph.spec_max_op() + 1,
            heads is None ==> r.seq == final(self).change_graph.spec_seq(r.actor_index) + 1,
            heads matches Some(h) ==> r.deps@ == h@,
            // not isolated: deps are the current heads plus the actor's own previous change (no duplicates added)
            heads is None ==> ({
                let hs = old(self).spec_heads();
                let a = r.actor_index;
                let prev_seq = final(self).change_graph.spec_seq(a);
                if prev_seq >= 1 && !hs.contains(final(self).spec_hash(a, prev_seq)) { r.deps@ == hs.push(final(self).spec_hash(a, prev_seq)) } else { r.deps@ == hs }
            }),
            final(self).queue.dropped(final(self).ops.actors[r.actor_index as int], r.seq),
    {
        let actor_index;
        let seq;
        let mut deps;
        let scope;
        match heads {
            Some(heads) => {
                deps = heads.to_vec();
                let isolation = self.isolate_actor(heads);
                actor_index = isolation.actor_index;
                seq = isolation.seq;
                scope = Some(isolation.clock);
            }
            None => {
                actor_index = self.get_or_create_actor_index();
                seq = self.change_graph.seq_for_actor(actor_index) + 1;
                deps = self.get_heads();
                scope = None;
                if seq > 1 {
                    let last_hash = self.get_hash(actor_index, seq - 1).unwrap();
                    if !deps.contains(&last_hash) {
                        deps.push(last_hash);
                    }
                }
            }
        }

        // A local change claims this actor sequence. Any queued change at the
        // same or a later sequence belongs to an incompatible actor branch;
        // retaining it would allow save() to encode duplicate sequence numbers.
        let actor = self.ops.actors[actor_index].clone();
        self.queue.remove_actor_branch_from(&actor, seq);

        // SAFETY: this unwrap is safe as we always add 1
        let start_op = NonZeroU64::new(self.change_graph.max_op() + 1).unwrap();

        TransactionArgs {
            actor_index,
            seq,
            start_op,
            deps,
            scope,
        }
    }
}
}
fn main() {}
