use vstd::prelude::*;
verus! {
#[derive(PartialEq, Eq, Clone, Copy)]
pub struct ChangeHash(pub [u8; 32]);
#[verifier::external_body]
#[verifier::reject_recursive_types(T)]
pub struct BTreeSet<T> { _p: core::marker::PhantomData<T> }
impl<T> BTreeSet<T> {
    pub uninterp spec fn view(&self) -> Set<T>;
    #[verifier::external_body]
    pub fn remove(&mut self, k: &T) -> (r: bool) ensures final(self).view() == old(self).view().remove(*k) { unimplemented!() }
    #[verifier::external_body]
    pub fn insert(&mut self, k: T) -> (r: bool) ensures final(self).view() == old(self).view().insert(k) { unimplemented!() }
}
#[verifier::external_body]
pub struct Change { _p: () }
impl Change {
    pub uninterp spec fn spec_hash(&self) -> ChangeHash;
    pub uninterp spec fn spec_deps(&self) -> Seq<ChangeHash>;
    #[verifier::external_body]
    pub fn hash(&self) -> (r: ChangeHash) ensures r == self.spec_hash() { unimplemented!() }
    #[verifier::external_body]
    pub fn deps(&self) -> (r: &[ChangeHash]) ensures r@ == self.spec_deps() { unimplemented!() }
}
pub struct ChangeGraph { pub heads: BTreeSet<ChangeHash> }
impl ChangeGraph {
    fn update_heads(&mut self, change: &Change)
        ensures final(self).heads@ == old(self).heads@.difference(change.spec_deps().to_set()).insert(change.spec_hash()),
    {
        for d in change.deps() {
            self.heads.remove(d);
        }
        self.heads.insert(change.hash());
    }
}
}
fn main() {}
