use vstd::prelude::*;
verus! {
#[derive(PartialEq, Eq, Clone, Copy)]
pub struct ChangeHash(pub [u8; 32]);
#[verifier::external_body]
#[verifier::reject_recursive_types(T)]
pub struct BTreeSet<T> { _p: core::marker::PhantomData<T> }
impl<T> BTreeSet<T> {
    pub uninterp spec fn view(&self) -> Set<T>;
    #[verifier::external_body]
    pub fn remove(&mut self, k: &T) -> (r: bool) ensures final(self).view() == old(self).view().remove(*k) { unimplemented!() }
    #[verifier::external_body]
    pub fn insert(&mut self, k: T) -> (r: bool) ensures final(self).view() == old(self).view().insert(k) { unimplemented!() }
}
#[verifier::external_body]
pub struct Change { _p: () }
impl Change {
    pub uninterp spec fn spec_hash(&self) -> ChangeHash;
    pub uninterp spec fn spec_deps(&self) -> Seq<ChangeHash>;
    #[verifier::external_body]
    pub fn hash(&self) -> (r: ChangeHash) ensures r == self.spec_hash() { unimplemented!() }
    #[verifier::external_body]
    pub fn deps(&self) -> (r: &[ChangeHash]) ensures r@ == self.spec_deps() { unimplemented!() }
}
/// heads are exactly the nodes no other node depends on
pub open spec fn heads_ok(nodes: Set<ChangeHash>, dep: spec_fn(ChangeHash, ChangeHash) -> bool, heads: Set<ChangeHash>) -> bool {
    forall|h: ChangeHash| heads.contains(h) <==> (nodes.contains(h) && forall|n: ChangeHash| nodes.contains(n) ==> !dep(n, h))
}
pub proof fn lemma_heads_preserved(nodes: Set<ChangeHash>, dep: spec_fn(ChangeHash, ChangeHash) -> bool, heads: Set<ChangeHash>, c: ChangeHash, cdeps: Set<ChangeHash>)
    requires heads_ok(nodes, dep, heads), !nodes.contains(c), cdeps.subset_of(nodes), !cdeps.contains(c),
        forall|n: ChangeHash| nodes.contains(n) ==> !dep(n, c),   // nothing applied depends on the new change
    ensures
        heads_ok(nodes.insert(c), |a: ChangeHash, b: ChangeHash| if a == c { cdeps.contains(b) } else { dep(a, b) }, heads.difference(cdeps).insert(c)),
{
    let dep2 = |a: ChangeHash, b: ChangeHash| if a == c { cdeps.contains(b) } else { dep(a, b) };
    let nodes2 = nodes.insert(c);
    let heads2 = heads.difference(cdeps).insert(c);
    assert forall|h: ChangeHash| heads2.contains(h) <==> (nodes2.contains(h) && forall|n: ChangeHash| nodes2.contains(n) ==> !dep2(n, h)) by {
        if h == c {
            assert forall|n: ChangeHash| nodes2.contains(n) implies !dep2(n, h) by {}
        } else if heads2.contains(h) {
            assert(heads.contains(h) && !cdeps.contains(h));
            assert forall|n: ChangeHash| nodes2.contains(n) implies !dep2(n, h) by {}
        } else if nodes2.contains(h) && (forall|n: ChangeHash| nodes2.contains(n) ==> !dep2(n, h)) {
            assert(nodes2.contains(c));
            assert(!dep2(c, h));
            assert(!cdeps.contains(h));
            assert forall|n: ChangeHash| nodes.contains(n) implies !dep(n, h) by { assert(nodes2.contains(n)); assert(!dep2(n, h)); }
            assert(heads.contains(h));
        }
    }
}
pub struct ChangeGraph { pub heads: BTreeSet<ChangeHash> }
impl ChangeGraph {
    fn update_heads(&mut self, change: &Change)
        ensures final(self).heads@ == old(self).heads@.difference(change.spec_deps().to_set()).insert(change.spec_hash()),
    {
        for d in it: change.deps()
            invariant
                it.seq().len() == change.spec_deps().len(),
                forall|k: int| 0 <= k < it.seq().len() ==> *(#[trigger] it.seq()[k]) == change.spec_deps()[k],
                self.heads@ == old(self).heads@.difference(change.spec_deps().subrange(0, it.index@).to_set()),
        {
            proof {
                let pre = change.spec_deps().subrange(0, it.index@);
                let nxt = change.spec_deps().subrange(0, it.index@ + 1);
                assert(*d == change.spec_deps()[it.index@ as int]);
                assert(nxt =~= pre.push(*d));
                assert(nxt.to_set() =~= pre.to_set().insert(*d)) by {
                    assert forall|x: ChangeHash| nxt.to_set().contains(x) <==> pre.to_set().insert(*d).contains(x) by {
                        if nxt.contains(x) { let j = choose|j: int| 0 <= j < nxt.len() && nxt[j] == x; if j < pre.len() { assert(pre[j] == x); } }
                        if pre.contains(x) { let j = choose|j: int| 0 <= j < pre.len() && pre[j] == x; assert(nxt[j] == x); }
                        if x == *d { assert(nxt[pre.len() as int] == x); }
                    }
                }
            }
            self.heads.remove(d);
        }
        proof { assert(change.spec_deps().subrange(0, change.spec_deps().len() as int) =~= change.spec_deps()); }
        self.heads.insert(change.hash());
    }
}
}
fn main() {}
