// U07 autoserde -- AutoSerdeMap against the ReadDoc / Serializer trait contracts (child module of autoserde.rs)

use super::*;
use crate::iter::{DocIter, Keys, ListRange, MapRange, Spans, Values};
use crate::marks::{Mark, MarkSet};
use crate::{hydrate, Change, ChangeHash, Cursor, AutomergeError, Parents, Prop, TextEncoding};
use crate::cursor::{CursorPosition, MoveCursor};
use crate::read::Stats;
use crate::exid::ExId;
use std::ops::RangeBounds;

struct Mock { root_len: usize, other_len: usize }
impl ReadDoc for Mock {
    fn parents<O: AsRef<ExId>>(&self, _: O) -> Result<Parents<'_>, AutomergeError> { unimplemented!() }
    fn parents_at<O: AsRef<ExId>>(&self, _: O, _: &[ChangeHash]) -> Result<Parents<'_>, AutomergeError> { unimplemented!() }
    fn keys<O: AsRef<ExId>>(&self, _: O) -> Keys<'_> { Keys::default() }
    fn keys_at<O: AsRef<ExId>>(&self, _: O, _: &[ChangeHash]) -> Keys<'_> { unimplemented!() }
    fn iter_at<O: AsRef<ExId>>(&self, _: O, _: Option<&[ChangeHash]>) -> DocIter<'_> { unimplemented!() }
    fn map_range<'a, O: AsRef<ExId>, R: RangeBounds<String> + 'a>(&'a self, _: O, _: R) -> MapRange<'a> { unimplemented!() }
    fn map_range_at<'a, O: AsRef<ExId>, R: RangeBounds<String> + 'a>(&'a self, _: O, _: R, _: &[ChangeHash]) -> MapRange<'a> { unimplemented!() }
    fn list_range<O: AsRef<ExId>, R: RangeBounds<usize>>(&self, _: O, _: R) -> ListRange<'_> { unimplemented!() }
    fn list_range_at<O: AsRef<ExId>, R: RangeBounds<usize>>(&self, _: O, _: R, _: &[ChangeHash]) -> ListRange<'_> { unimplemented!() }
    fn values<O: AsRef<ExId>>(&self, _: O) -> Values<'_> { unimplemented!() }
    fn values_at<O: AsRef<ExId>>(&self, _: O, _: &[ChangeHash]) -> Values<'_> { unimplemented!() }
    fn length<O: AsRef<ExId>>(&self, obj: O) -> usize { if matches!(obj.as_ref(), ExId::Root) { self.root_len } else { self.other_len } }
    fn length_at<O: AsRef<ExId>>(&self, _: O, _: &[ChangeHash]) -> usize { unimplemented!() }
    fn object_type<O: AsRef<ExId>>(&self, _: O) -> Result<ObjType, AutomergeError> { unimplemented!() }
    fn marks<O: AsRef<ExId>>(&self, _: O) -> Result<Vec<Mark>, AutomergeError> { unimplemented!() }
    fn marks_at<O: AsRef<ExId>>(&self, _: O, _: &[ChangeHash]) -> Result<Vec<Mark>, AutomergeError> { unimplemented!() }
    fn get_marks<O: AsRef<ExId>>(&self, _: O, _: usize, _: Option<&[ChangeHash]>) -> Result<MarkSet, AutomergeError> { unimplemented!() }
    fn text<O: AsRef<ExId>>(&self, _: O) -> Result<String, AutomergeError> { unimplemented!() }
    fn text_at<O: AsRef<ExId>>(&self, _: O, _: &[ChangeHash]) -> Result<String, AutomergeError> { unimplemented!() }
    fn spans<O: AsRef<ExId>>(&self, _: O) -> Result<Spans<'_>, AutomergeError> { unimplemented!() }
    fn spans_at<O: AsRef<ExId>>(&self, _: O, _: &[ChangeHash]) -> Result<Spans<'_>, AutomergeError> { unimplemented!() }
    fn get_cursor<O: AsRef<ExId>, I: Into<CursorPosition>>(&self, _: O, _: I, _: Option<&[ChangeHash]>) -> Result<Cursor, AutomergeError> { unimplemented!() }
    fn get_cursor_moving<O: AsRef<ExId>, I: Into<CursorPosition>>(&self, _: O, _: I, _: Option<&[ChangeHash]>, _: MoveCursor) -> Result<Cursor, AutomergeError> { unimplemented!() }
    fn get_cursor_position<O: AsRef<ExId>>(&self, _: O, _: &Cursor, _: Option<&[ChangeHash]>) -> Result<usize, AutomergeError> { unimplemented!() }
    // the WINNER at any position of any sequence is the integer 7 ...
    fn get<O: AsRef<ExId>, P: Into<Prop>>(&self, _: O, _: P) -> Result<Option<(Value<'_>, ExId)>, AutomergeError> {
        Ok(Some((Value::Scalar(std::borrow::Cow::Owned(crate::ScalarValue::Int(7))), ExId::Root)))
    }
    fn get_at<O: AsRef<ExId>, P: Into<Prop>>(&self, _: O, _: P, _: &[ChangeHash]) -> Result<Option<(Value<'_>, ExId)>, AutomergeError> { unimplemented!() }
    fn hydrate<O: AsRef<ExId>>(&self, _: O, _: Option<&[ChangeHash]>) -> Result<hydrate::Value, AutomergeError> { unimplemented!() }
    // ... while the conflict set of the position starts with a LOSER 1 (a one-element answer keeps CBMC tractable)
    fn get_all<O: AsRef<ExId>, P: Into<Prop>>(&self, _: O, _: P) -> Result<Vec<(Value<'_>, ExId)>, AutomergeError> {
        let mut v = Vec::with_capacity(1);
        v.push((Value::Scalar(std::borrow::Cow::Owned(crate::ScalarValue::Int(1))), ExId::Root));
        Ok(v)
    }
    fn get_all_at<O: AsRef<ExId>, P: Into<Prop>>(&self, _: O, _: P, _: &[ChangeHash]) -> Result<Vec<(Value<'_>, ExId)>, AutomergeError> { unimplemented!() }
    fn get_missing_deps(&self, _: &[ChangeHash]) -> Vec<ChangeHash> { unimplemented!() }
    fn get_change_by_hash(&self, _: &ChangeHash) -> Option<Change> { unimplemented!() }
    fn stats(&self) -> Stats { unimplemented!() }
    fn text_encoding(&self) -> TextEncoding { unimplemented!() }
}

struct Rec;
struct RecMap { hint: Option<usize>, n: usize }
#[derive(Debug)]
struct E;
impl std::fmt::Display for E { fn fmt(&self, _: &mut std::fmt::Formatter<'_>) -> std::fmt::Result { Ok(()) } }
impl std::error::Error for E {}
impl serde::ser::Error for E { fn custom<T: std::fmt::Display>(_: T) -> Self { E } }
impl SerializeMap for RecMap {
    type Ok = (Option<usize>, usize); type Error = E;
    fn serialize_key<T: ?Sized + serde::Serialize>(&mut self, _: &T) -> Result<(), E> { self.n += 1; Ok(()) }
    fn serialize_value<T: ?Sized + serde::Serialize>(&mut self, _: &T) -> Result<(), E> { Ok(()) }
    fn end(self) -> Result<Self::Ok, E> { Ok((self.hint, self.n)) }
}
use serde::ser::Impossible;
type R0 = (Option<usize>, usize);
impl serde::Serializer for Rec {
    type Ok = R0; type Error = E;
    type SerializeSeq = Impossible<R0, E>; type SerializeTuple = Impossible<R0, E>; type SerializeTupleStruct = Impossible<R0, E>;
    type SerializeTupleVariant = Impossible<R0, E>; type SerializeMap = RecMap; type SerializeStruct = Impossible<R0, E>; type SerializeStructVariant = Impossible<R0, E>;
    fn serialize_bool(self, _: bool) -> Result<R0, E> { Err(E) }
    fn serialize_i8(self, _: i8) -> Result<R0, E> { Err(E) }
    fn serialize_i16(self, _: i16) -> Result<R0, E> { Err(E) }
    fn serialize_i32(self, _: i32) -> Result<R0, E> { Err(E) }
    fn serialize_i64(self, _: i64) -> Result<R0, E> { Err(E) }
    fn serialize_u8(self, _: u8) -> Result<R0, E> { Err(E) }
    fn serialize_u16(self, _: u16) -> Result<R0, E> { Err(E) }
    fn serialize_u32(self, _: u32) -> Result<R0, E> { Err(E) }
    fn serialize_u64(self, _: u64) -> Result<R0, E> { Err(E) }
    fn serialize_f32(self, _: f32) -> Result<R0, E> { Err(E) }
    fn serialize_f64(self, _: f64) -> Result<R0, E> { Err(E) }
    fn serialize_char(self, _: char) -> Result<R0, E> { Err(E) }
    fn serialize_str(self, _: &str) -> Result<R0, E> { Err(E) }
    fn serialize_bytes(self, _: &[u8]) -> Result<R0, E> { Err(E) }
    fn serialize_none(self) -> Result<R0, E> { Err(E) }
    fn serialize_some<T: ?Sized + serde::Serialize>(self, _: &T) -> Result<R0, E> { Err(E) }
    fn serialize_unit(self) -> Result<R0, E> { Err(E) }
    fn serialize_unit_struct(self, _: &'static str) -> Result<R0, E> { Err(E) }
    fn serialize_unit_variant(self, _: &'static str, _: u32, _: &'static str) -> Result<R0, E> { Err(E) }
    fn serialize_newtype_struct<T: ?Sized + serde::Serialize>(self, _: &'static str, _: &T) -> Result<R0, E> { Err(E) }
    fn serialize_newtype_variant<T: ?Sized + serde::Serialize>(self, _: &'static str, _: u32, _: &'static str, _: &T) -> Result<R0, E> { Err(E) }
    fn serialize_seq(self, _: Option<usize>) -> Result<Self::SerializeSeq, E> { Err(E) }
    fn serialize_tuple(self, _: usize) -> Result<Self::SerializeTuple, E> { Err(E) }
    fn serialize_tuple_struct(self, _: &'static str, _: usize) -> Result<Self::SerializeTupleStruct, E> { Err(E) }
    fn serialize_tuple_variant(self, _: &'static str, _: u32, _: &'static str, _: usize) -> Result<Self::SerializeTupleVariant, E> { Err(E) }
    fn serialize_map(self, len: Option<usize>) -> Result<RecMap, E> { Ok(RecMap { hint: len, n: 0 }) }
    fn serialize_struct(self, _: &'static str, _: usize) -> Result<Self::SerializeStruct, E> { Err(E) }
    fn serialize_struct_variant(self, _: &'static str, _: u32, _: &'static str, _: usize) -> Result<Self::SerializeStructVariant, E> { Err(E) }
}

// The announced length must equal the number of entries written AND doc.length(self.obj) -- for the map
// being serialized, not the root (D6).  `Keys` can only be built empty outside a document, so the probed
// map has no entries; the root reports an arbitrary length.  Complete for this instance of the
// ReadDoc / Serializer trait contracts.
#[kani::proof]
#[kani::unwind(20)]
fn u07_map_announces_true_length() {
    let doc = Mock { root_len: kani::any(), other_len: 0 };
    let ab: [u8; 1] = kani::any();
    let obj = ExId::Id(kani::any(), crate::ActorId::from(&ab[..]), kani::any());
    let m = AutoSerdeMap { doc: &doc, obj };
    let (hint, n) = serde::Serialize::serialize(&m, Rec).unwrap();
    kani::cover!(doc.root_len != 0);
    assert!(n == 0);
    // C32: every container announces its TRUE length (a `None` hint would also satisfy serde's contract)
    assert!(hint.is_none() || hint == Some(n));
}

#[kani::proof]
#[kani::unwind(20)]
fn u07_root_map_announces_its_length() {
    let doc = Mock { root_len: 0, other_len: kani::any() };
    let m = AutoSerdeMap { doc: &doc, obj: ExId::Root };
    let (hint, n) = serde::Serialize::serialize(&m, Rec).unwrap();
    assert!(n == 0);
    assert!(hint.is_none() || hint == Some(0));
}

// ---- scalars are exported as themselves (C32: "a faithful image ... scalars").  A second recording serializer
// remembers WHICH primitive the value was serialized as and with what payload.  Complete (loop-free) over all
// Int / Uint / Timestamp / Counter / Boolean / Null values.
#[derive(PartialEq)]
enum Seen { I64(i64), U64(u64), Bool(bool), Unit, Other, Seq { n: usize, last: Option<i64> } }
struct RecSeq { n: usize, last: Option<i64> }
impl SerializeSeq for RecSeq {
    type Ok = Seen; type Error = E;
    fn serialize_element<T: ?Sized + serde::Serialize>(&mut self, v: &T) -> Result<(), E> {
        self.last = match v.serialize(RecScalar)? { Seen::I64(i) => Some(i), _ => None };
        self.n += 1;
        Ok(())
    }
    fn end(self) -> Result<Seen, E> { Ok(Seen::Seq { n: self.n, last: self.last }) }
}
struct RecScalar;
impl serde::Serializer for RecScalar {
    type Ok = Seen; type Error = E;
    type SerializeSeq = RecSeq; type SerializeTuple = Impossible<Seen, E>; type SerializeTupleStruct = Impossible<Seen, E>;
    type SerializeTupleVariant = Impossible<Seen, E>; type SerializeMap = Impossible<Seen, E>; type SerializeStruct = Impossible<Seen, E>; type SerializeStructVariant = Impossible<Seen, E>;
    fn serialize_bool(self, v: bool) -> Result<Seen, E> { Ok(Seen::Bool(v)) }
    fn serialize_i8(self, v: i8) -> Result<Seen, E> { Ok(Seen::I64(v as i64)) }
    fn serialize_i16(self, v: i16) -> Result<Seen, E> { Ok(Seen::I64(v as i64)) }
    fn serialize_i32(self, v: i32) -> Result<Seen, E> { Ok(Seen::I64(v as i64)) }
    fn serialize_i64(self, v: i64) -> Result<Seen, E> { Ok(Seen::I64(v)) }
    fn serialize_u8(self, v: u8) -> Result<Seen, E> { Ok(Seen::U64(v as u64)) }
    fn serialize_u16(self, v: u16) -> Result<Seen, E> { Ok(Seen::U64(v as u64)) }
    fn serialize_u32(self, v: u32) -> Result<Seen, E> { Ok(Seen::U64(v as u64)) }
    fn serialize_u64(self, v: u64) -> Result<Seen, E> { Ok(Seen::U64(v)) }
    fn serialize_f32(self, _: f32) -> Result<Seen, E> { Ok(Seen::Other) }
    fn serialize_f64(self, _: f64) -> Result<Seen, E> { Ok(Seen::Other) }
    fn serialize_char(self, _: char) -> Result<Seen, E> { Ok(Seen::Other) }
    fn serialize_str(self, _: &str) -> Result<Seen, E> { Ok(Seen::Other) }
    fn serialize_bytes(self, _: &[u8]) -> Result<Seen, E> { Ok(Seen::Other) }
    fn serialize_none(self) -> Result<Seen, E> { Ok(Seen::Unit) }
    fn serialize_some<T: ?Sized + serde::Serialize>(self, _: &T) -> Result<Seen, E> { Ok(Seen::Other) }
    fn serialize_unit(self) -> Result<Seen, E> { Ok(Seen::Unit) }
    fn serialize_unit_struct(self, _: &'static str) -> Result<Seen, E> { Ok(Seen::Unit) }
    fn serialize_unit_variant(self, _: &'static str, _: u32, _: &'static str) -> Result<Seen, E> { Ok(Seen::Unit) }
    fn serialize_newtype_struct<T: ?Sized + serde::Serialize>(self, _: &'static str, _: &T) -> Result<Seen, E> { Ok(Seen::Other) }
    fn serialize_newtype_variant<T: ?Sized + serde::Serialize>(self, _: &'static str, _: u32, _: &'static str, _: &T) -> Result<Seen, E> { Ok(Seen::Other) }
    fn serialize_seq(self, _: Option<usize>) -> Result<Self::SerializeSeq, E> { Ok(RecSeq { n: 0, last: None }) }
    fn serialize_tuple(self, _: usize) -> Result<Self::SerializeTuple, E> { Err(E) }
    fn serialize_tuple_struct(self, _: &'static str, _: usize) -> Result<Self::SerializeTupleStruct, E> { Err(E) }
    fn serialize_tuple_variant(self, _: &'static str, _: u32, _: &'static str, _: usize) -> Result<Self::SerializeTupleVariant, E> { Err(E) }
    fn serialize_map(self, _: Option<usize>) -> Result<Self::SerializeMap, E> { Err(E) }
    fn serialize_struct(self, _: &'static str, _: usize) -> Result<Self::SerializeStruct, E> { Err(E) }
    fn serialize_struct_variant(self, _: &'static str, _: u32, _: &'static str, _: usize) -> Result<Self::SerializeStructVariant, E> { Err(E) }
}

#[kani::proof]
#[kani::unwind(4)]
fn u07_scalar_faithful() {
    let doc = Mock { root_len: 0, other_len: 0 };
    let k: u8 = kani::any();
    let i: i64 = kani::any();
    let u: u64 = kani::any();
    let b: bool = kani::any();
    let (sv, want) = match k % 6 {
        0 => (crate::ScalarValue::Int(i), Seen::I64(i)),
        1 => (crate::ScalarValue::Uint(u), Seen::U64(u)),
        2 => (crate::ScalarValue::Timestamp(i), Seen::I64(i)),
        3 => (crate::ScalarValue::Counter(i.into()), Seen::I64(i)),
        4 => (crate::ScalarValue::Boolean(b), Seen::Bool(b)),
        _ => (crate::ScalarValue::Null, Seen::Unit),
    };
    let v = AutoSerdeVal { doc: &doc, val: Value::Scalar(std::borrow::Cow::Owned(sv)), obj: ExId::Root };
    let got = serde::Serialize::serialize(&v, RecScalar).unwrap();
    assert!(got == want);
}

// ---- a list exports exactly `length` elements and each is the WINNER `get` reports, never a conflict loser
// (trait-contract instance: one-element list whose position holds the values [1 (loser), 7 (winner)])
#[kani::proof]
#[kani::unwind(20)]
fn u07_seq_exports_winners() {
    let doc = Mock { root_len: 0, other_len: 1 };
    let ab: [u8; 1] = kani::any();
    let obj = ExId::Id(kani::any(), crate::ActorId::from(&ab[..]), kani::any());
    let s = AutoSerdeSeq { doc: &doc, obj };
    let got = serde::Serialize::serialize(&s, RecScalar).unwrap();
    assert!(got == Seen::Seq { n: 1, last: Some(7) });
}
