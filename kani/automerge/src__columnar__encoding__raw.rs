// U15 raw column reader -- columnar/encoding/raw.rs::RawDecoder::read_bytes (child module), C15
use super::*;

// read_bytes(n) on an 8-byte buffer at ANY offset inside it and for every length a value header can carry
// (value metadata is `u64 >> 4`, so n < 2^60): an error or exactly the next n bytes -- never a panic.
// Bounded in the buffer length only (the function is length-generic: one comparison, one slice).
#[kani::proof]
fn u15_raw_read_bytes() {
    let buf: [u8; 8] = kani::any();
    let offset: usize = kani::any();
    kani::assume(offset <= 8);
    let n: usize = kani::any();
    kani::assume(n < (1usize << 60));
    let mut d = RawDecoder {
        offset,
        last_read: 0,
        data: Cow::Borrowed(&buf[..]),
    };
    kani::cover!(offset > 0 && n > 8 - offset && n <= 8);
    match d.read_bytes(n) {
        Ok(b) => {
            assert!(offset + n <= 8);
            assert!(b.len() == n);
            assert!(n == 0 || b[0] == buf[offset]);
        }
        Err(_) => {
            assert!(offset + n > 8);
        }
    }
}
