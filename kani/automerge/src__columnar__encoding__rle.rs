// U30 legacy RLE column decoder -- columnar/encoding/rle.rs::RleDecoder::try_next (child module), C15
// (the decoder behind every RLE column of a CHANGE chunk: Change::from_bytes, load_incremental, sync messages)
use super::*;

// One step of the decoder over a run header of the LONGEST shape (ten LEB128 bytes: nine with the continuation bit,
// then a final byte) followed by two arbitrary bytes: a value, a null, the end or an error -- never a panic (the
// header is a signed count; negating it must not overflow).  Complete over the 7-bit payloads of that shape; shorter
// headers cannot reach the extreme counts.
#[kani::proof]
#[kani::unwind(14)]
fn u30_legacy_rle_step_total() {
    let mut bytes: [u8; 12] = kani::any();
    let mut i = 0;
    while i < 9 {
        bytes[i] |= 0x80;
        i += 1;
    }
    bytes[9] &= 0x7f;
    let mut d: RleDecoder<'_, u64> = RleDecoder::from(&bytes[..]);
    let _ = d.try_next();
}
