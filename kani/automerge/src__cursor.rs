// U04 ids -- Cursor string and byte codecs (child module of cursor.rs)
use super::*;

fn check_from_str_total<const N: usize>(allow_at: bool) {
    // allow_at is always false in the registered harness (see the note below)
    let a: [u8; N] = kani::any();
    let n: usize = kani::any();
    kani::assume(n <= N);
    if !allow_at {
        // strings without '@' stop at `s.find('@')?` -- after the prefix slicing that used to panic (D3),
        // before the (very expensive for CBMC) hex decoding of the actor part
        let mut i = 0;
        while i < N {
            kani::assume(a[i] != b'@');
            i += 1;
        }
    }
    if let Ok(s) = std::str::from_utf8(&a[..n]) {
        kani::cover!(n == 0);
        kani::cover!(n > 1 && a[0] >= 0x80);
        // C15: returns Some/None for every string -- never panics (D3: "" and non-ASCII first char)
        let r = Cursor::from_str(s);
        if n == 1 {
            assert!(r.is_some() == (a[0] == b's' || a[0] == b'e'));
        }
        if n == 0 {
            assert!(r.is_none());
        }
    }
}

#[kani::proof]
#[kani::unwind(8)]
fn u04_cursor_from_str_total_q() {
    check_from_str_total::<3>(false);
}

// (a thorough variant allowing '@' -- i.e. reaching the counter parse and the hex decoding of the actor -- exceeds
// CBMC's memory limit even for 3-byte strings; that branch of from_str is not under contract)

// (totality of Cursor::try_from(&[u8]) / parse_0 was first a K harness here: CBMC needs > 15 min for 5 bytes.
// It is now proved for inputs of ANY length by the Verus unit u04c_codecs.)
