// U04 ids -- Cursor string and byte codecs (child module of cursor.rs)
use super::*;

fn check_from_str_total<const N: usize>() {
    let a: [u8; N] = kani::any();
    let n: usize = kani::any();
    kani::assume(n <= N);
    if let Ok(s) = std::str::from_utf8(&a[..n]) {
        kani::cover!(n == 0);
        kani::cover!(n > 1 && a[0] >= 0x80);
        // C15: returns Some/None for every string -- never panics (D3: "" and non-ASCII first char)
        let r = Cursor::from_str(s);
        if n == 1 {
            assert!(r.is_some() == (a[0] == b's' || a[0] == b'e'));
        }
        if n == 0 {
            assert!(r.is_none());
        }
    }
}

#[kani::proof]
#[kani::unwind(18)]
fn u04_cursor_from_str_total_q() {
    check_from_str_total::<2>();
}

#[kani::proof]
#[kani::unwind(18)]
fn u04_cursor_from_str_total_t() {
    check_from_str_total::<4>();
}

fn check_cursor_bytes_total<const N: usize>() {
    let bytes: [u8; N] = kani::any();
    let n: usize = kani::any();
    kani::assume(n <= N);
    match Cursor::try_from(&bytes[..n]) {
        Ok(Cursor::Op(op)) => {
            kani::cover!(bytes[0] == 0);
            kani::cover!(bytes[0] == 1);
            assert!(op.actor.to_bytes().len() <= n);
        }
        Ok(_) => {
            assert!(n >= 2 && bytes[0] == 1 && (bytes[1] == 1 || bytes[1] == 2));
        }
        Err(_) => {}
    }
}

#[kani::proof]
#[kani::unwind(18)]
fn u04_cursor_bytes_total_q() {
    check_cursor_bytes_total::<5>();
}

#[kani::proof]
#[kani::unwind(18)]
fn u04_cursor_bytes_total_t() {
    check_cursor_bytes_total::<12>();
}

