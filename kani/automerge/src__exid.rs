// U04 ids -- ExId byte codec (child module of exid.rs)
use super::*;

fn check_exid_total<const N: usize>() {
    let bytes: [u8; N] = kani::any();
    let n: usize = kani::any();
    kani::assume(n <= N);
    match ExId::try_from(&bytes[..n]) {
        Ok(ExId::Root) => {
            assert!(n >= 1 && bytes[0] == 0);
        }
        Ok(ExId::Id(_ctr, actor, _idx)) => {
            kani::cover!(actor.to_bytes().len() > 0);
            assert!(n >= 4 && bytes[0] == 0x10);
            // C17: the actor id is a sub-slice of the input, never larger than it
            assert!(actor.to_bytes().len() <= n);
        }
        Err(_) => {}
    }
}

#[kani::proof]
#[kani::unwind(18)]
fn u04_exid_try_from_total_q() {
    check_exid_total::<6>();
}

#[kani::proof]
#[kani::unwind(18)]
fn u04_exid_try_from_total_t() {
    check_exid_total::<12>();
}

// byte round trip, bounded: 2-byte actor, counter and index hint below 128 (one LEB128 byte each;
// wider values exhaust CBMC through the Vec-growing writer -- they are covered by the Verus unit)
#[kani::proof]
#[kani::unwind(18)]
fn u04_exid_roundtrip_small() {
    let ab: [u8; 2] = kani::any();
    let ctr: u64 = kani::any();
    let idx: usize = kani::any();
    kani::assume(ctr < 128 && idx < 128);
    let c = ExId::Id(ctr, ActorId::from(&ab[..]), idx);
    let b = c.to_bytes();
    match ExId::try_from(b.as_slice()) {
        Ok(ExId::Id(c2, a2, i2)) => {
            assert!(c2 == ctr);
            assert!(i2 == idx);
            assert!(a2.to_bytes() == &ab[..]);
        }
        _ => panic!("ExId round trip failed"),
    }
    let r = ExId::Root.to_bytes();
    assert!(matches!(ExId::try_from(r.as_slice()), Ok(ExId::Root)));
}
