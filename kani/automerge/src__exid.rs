// U04 ids -- ExId byte codec (child module of exid.rs)
use super::*;

fn check_exid_total<const N: usize>() {
    let bytes: [u8; N] = kani::any();
    let n: usize = kani::any();
    kani::assume(n <= N);
    match ExId::try_from(&bytes[..n]) {
        Ok(ExId::Root) => {
            assert!(n >= 1 && bytes[0] == 0);
        }
        Ok(ExId::Id(_ctr, actor, _idx)) => {
            kani::cover!(actor.to_bytes().len() > 0);
            assert!(n >= 4 && bytes[0] == 0x10);
            // C17: the actor id is a sub-slice of the input, never larger than it
            assert!(actor.to_bytes().len() <= n);
        }
        Err(_) => {}
    }
}

#[kani::proof]
#[kani::unwind(18)]
fn u04_exid_try_from_total_q() {
    check_exid_total::<6>();
}

#[kani::proof]
#[kani::unwind(18)]
fn u04_exid_try_from_total_t() {
    check_exid_total::<12>();
}


// (withdrawn: a harness over ExId::{eq, cmp} makes kani-compiler 0.68 panic -- `ActorId: Ord` lowers to the
// `compare_bytes` intrinsic, intrinsics.rs:243 -- so no obligation is offered for the order of external ids.)
