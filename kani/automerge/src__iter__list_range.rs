// U12 range normalisation -- iter/list_range.rs::normalize_range (child module), C37
use super::*;

fn any_bound() -> Bound<usize> {
    let k: u8 = kani::any();
    let n: usize = kani::any();
    match k % 3 {
        0 => Bound::Unbounded,
        1 => Bound::Included(n),
        _ => Bound::Excluded(n),
    }
}

// Complete (loop-free) over every pair of bounds: never panics, and the half-open interval it returns
// contains exactly the indexes the caller's range contains (usize::MAX itself cannot index a sequence).
#[kani::proof]
fn u12_normalize_range() {
    let r: (Bound<usize>, Bound<usize>) = (any_bound(), any_bound());
    let (s, e) = normalize_range(r);
    let i: usize = kani::any();
    kani::assume(i < usize::MAX);
    kani::cover!(matches!(r.0, Bound::Excluded(0)));
    assert!((s <= i && i < e) == r.contains(&i));
}
