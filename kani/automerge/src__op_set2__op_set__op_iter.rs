// U15 id loaders -- op_set2/op_set/op_iter.rs::{OpId,ObjId,ElemId}::try_load (child module), C15
use super::*;

fn any_actor() -> Option<ActorIdx> {
    if kani::any() {
        Some(ActorIdx(kani::any()))
    } else {
        None
    }
}
fn any_ctr() -> Option<i64> {
    if kani::any() {
        Some(kani::any())
    } else {
        None
    }
}

// Complete (loop-free) over every (actor index, counter) pair an id column can decode to -- bundles hand these
// functions unvalidated i64 counters: an id or an error, never a panic.
#[kani::proof]
fn u15_try_load_total() {
    let a = any_actor();
    let c = any_ctr();
    if let Ok(o) = OpId::try_load(a, c) {
        assert!(Some(o.counter() as i64) == c);
    }
    let _ = ObjId::try_load(a, c);
    let _ = ElemId::try_load(a, c);
}
