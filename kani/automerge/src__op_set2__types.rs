// U17 op values from raw column bytes -- op_set2/types.rs::ScalarValue::from_raw (child module), C39 / C15
use super::*;

// from_raw on a value whose metadata says "string" and whose raw bytes are ANY <= 4 bytes: either an error, or a
// `Str` that borrows exactly those bytes AND those bytes are valid UTF-8 (checked with std's validator).
// Bounded in the value length (<= 3 bytes quick, <= 4 bytes thorough: every UTF-8 sequence class and every
// ill-formed prefix of one).
fn check_from_raw_string<const N: usize>() {
    let buf: [u8; N] = kani::any();
    let n: usize = kani::any();
    kani::assume(n <= N);
    let raw = &buf[..n];
    let hi: u64 = kani::any();
    kani::assume(hi < (1u64 << 59));
    let meta = crate::op_set2::ValueMeta::from((hi << 4) | 6);
    match ScalarValue::from_raw(meta, raw) {
        Ok(ScalarValue::Str(s)) => {
            assert!(std::str::from_utf8(raw).is_ok());
            assert!(s.as_bytes().len() == n);
            assert!(n == 0 || s.as_bytes()[0] == buf[0]);
        }
        Ok(_) => panic!("a string value decoded to another type"),
        Err(_) => {
            assert!(std::str::from_utf8(raw).is_err());
        }
    }
}

#[kani::proof]
#[kani::unwind(6)]
fn u17_from_raw_string_valid() {
    check_from_raw_string::<3>();
}

#[kani::proof]
#[kani::unwind(6)]
fn u17_from_raw_string_valid_t() {
    check_from_raw_string::<4>();
}
