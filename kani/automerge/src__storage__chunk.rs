// U03 chunk -- Kani harnesses compiled into the real crate (child module of storage::chunk).
use super::*;

/// SHA-256 uses inline assembly Kani cannot translate: `hash` is replaced by an arbitrary value.
/// What `hash` computes is proved separately by the Verus unit u03_chunk (preimage contract).
fn hash_stub(_typ: ChunkType, _data: &[u8]) -> ChangeHash {
    ChangeHash(kani::any())
}

fn check_header_parse<const N: usize>() {
    let bytes: [u8; N] = kani::any();
    let n: usize = kani::any();
    kani::assume(n <= N);
    let r = Header::parse::<error::Header>(parse::Input::new(&bytes[..n]));
    if let Ok((rest, h)) = r {
        kani::cover!(h.data_len > 0);
        // C14: the magic bytes are compared, the type byte is a known type
        assert!(bytes[0] == MAGIC_BYTES[0] && bytes[1] == MAGIC_BYTES[1] && bytes[2] == MAGIC_BYTES[2] && bytes[3] == MAGIC_BYTES[3]);
        assert!(bytes[8] <= 3 && u8::from(h.chunk_type) == bytes[8]);
        // the stored checksum is exactly the four wire bytes
        let cs = h.checksum.bytes();
        assert!(cs[0] == bytes[4] && cs[1] == bytes[5] && cs[2] == bytes[6] && cs[3] == bytes[7]);
        // C13: the whole chunk (header + data) is inside the input
        assert!(h.len() >= 10 && h.len() <= 19);
        assert!(n >= h.len() + h.data_len);
        assert!(rest.unconsumed_bytes().len() == n - h.len());
        assert!(h.data_bytes().start == h.len() && h.data_bytes().end == h.len() + h.data_len);
        // C10/C14: the header is canonical -- re-encoding it gives the wire bytes, so the
        // length that is hashed is the length on the wire
        let mut out = Vec::new();
        h.write(&mut out);
        assert!(out.len() == h.len());
        let mut i = 0;
        while i < out.len() {
            assert!(out[i] == bytes[i]);
            i += 1;
        }
        // C13: every strict prefix of the chunk is Incomplete -- never Ok, never another error
        let m: usize = kani::any();
        kani::assume(m < h.len() + h.data_len);
        let r2 = Header::parse::<error::Header>(parse::Input::new(&bytes[..m]));
        assert!(matches!(r2, Err(parse::ParseError::Incomplete(_))));
    }
}

#[kani::proof]
#[kani::unwind(22)]
#[kani::stub(hash, hash_stub)]
fn u03_header_parse_q() {
    check_header_parse::<20>();
}

#[kani::proof]
#[kani::unwind(26)]
#[kani::stub(hash, hash_stub)]
fn u03_header_parse_t() {
    check_header_parse::<24>();
}

// a chunk whose length field needs TWO LEB128 bytes (data >= 128 bytes): the header shape differs from the
// short cases above, and off-by-one errors in "is the whole chunk present?" only show near the end of the data
#[kani::proof]
#[kani::unwind(14)]
#[kani::stub(hash, hash_stub)]
fn u03_header_parse_long() {
    let mut bytes: [u8; 141] = [0u8; 141];
    // symbolic header (11 bytes: magic, checksum, type, 2-byte length), concrete zero data
    let hdr: [u8; 11] = kani::any();
    let mut i = 0;
    while i < 11 {
        bytes[i] = hdr[i];
        i += 1;
    }
    let n: usize = kani::any();
    kani::assume(n <= 141);
    let r = Header::parse::<error::Header>(parse::Input::new(&bytes[..n]));
    if let Ok((rest, h)) = r {
        kani::cover!(h.data_len == 130);
        assert!(n >= h.len() + h.data_len);
        assert!(rest.unconsumed_bytes().len() == n - h.len());
        let m: usize = kani::any();
        kani::assume(m < h.len() + h.data_len);
        let r2 = Header::parse::<error::Header>(parse::Input::new(&bytes[..m]));
        assert!(matches!(r2, Err(parse::ParseError::Incomplete(_))));
    }
}

// ---- checksum_valid compares ALL FOUR checksum bytes with the first four hash bytes (complete)
#[kani::proof]
fn u03_checksum_valid() {
    let h = Header {
        checksum: CheckSum(kani::any()),
        chunk_type: ChunkType::Change,
        data_len: kani::any(),
        header_size: kani::any(),
        hash: ChangeHash(kani::any()),
    };
    let want = h.hash.0[0] == h.checksum.0[0]
        && h.hash.0[1] == h.checksum.0[1]
        && h.hash.0[2] == h.checksum.0[2]
        && h.hash.0[3] == h.checksum.0[3];
    kani::cover!(want);
    assert!(h.checksum_valid() == want);
    // CheckSum: From<ChangeHash> takes the same four bytes
    let c: CheckSum = h.hash.into();
    assert!(c.0[0] == h.hash.0[0] && c.0[1] == h.hash.0[1] && c.0[2] == h.hash.0[2] && c.0[3] == h.hash.0[3]);
}

// ---- ChunkType <-> u8 (complete over all u8)
#[kani::proof]
fn u03_chunktype_codes() {
    let v: u8 = kani::any();
    match ChunkType::try_from(v) {
        Ok(ct) => {
            assert!(v <= 3);
            assert!(u8::from(ct) == v);
        }
        Err(e) => {
            assert!(v > 3 && e == v);
        }
    }
}

// ---- Header::new / write / parse round trip on fixed data lengths (hash stubbed)
fn check_header_roundtrip<const L: usize>() {
    let data: [u8; L] = kani::any();
    let t: u8 = kani::any();
    kani::assume(t <= 3);
    let ct = ChunkType::try_from(t).unwrap();
    let h = Header::new(ct, &data);
    assert!(h.checksum_valid());
    assert!(h.data_len == L);
    let mut out = Vec::new();
    h.write(&mut out);
    assert!(out.len() == h.len());
    out.extend(&data);
    match Header::parse::<error::Header>(parse::Input::new(&out)) {
        Ok((rest, g)) => {
            assert!(g.chunk_type == ct && g.data_len == L && g.header_size == h.header_size);
            assert!(g.checksum == h.checksum);
            assert!(rest.unconsumed_bytes().len() == L);
        }
        Err(_) => panic!("header round trip failed"),
    }
}

#[kani::proof]
#[kani::unwind(16)]
#[kani::stub(hash, hash_stub)]
fn u03_header_roundtrip_0() {
    check_header_roundtrip::<0>();
}

#[kani::proof]
#[kani::unwind(16)]
#[kani::stub(hash, hash_stub)]
fn u03_header_roundtrip_3() {
    check_header_roundtrip::<3>();
}

// ---- the `leb128` crate writer against the real parser and the spec function leb(n), all u64.
// This backs the writer contract ASSUMED by the Verus units (out == old ++ leb(n)).
fn spec_leb(mut n: u64, out: &mut [u8; 10]) -> usize {
    let mut k = 0;
    loop {
        if n < 128 {
            out[k] = n as u8;
            return k + 1;
        }
        out[k] = ((n % 128) + 128) as u8;
        n /= 128;
        k += 1;
    }
}

#[kani::proof]
#[kani::unwind(12)]
fn u03_leb128_writer_matches_parser() {
    let v: u64 = kani::any();
    let mut buf = [0u8; 10];
    let written = {
        let mut w: &mut [u8] = &mut buf;
        leb128::write::unsigned(&mut w, v).unwrap()
    };
    assert!(written >= 1 && written <= 10);
    let mut want = [0u8; 10];
    let k = spec_leb(v, &mut want);
    assert!(k == written);
    let mut i = 0;
    while i < k {
        assert!(buf[i] == want[i]);
        i += 1;
    }
    assert!(crate::columnar::encoding::leb128::ulebsize(v) as usize == written);
    match parse::leb128_u64::<parse::leb128::Error>(parse::Input::new(&buf[..written])) {
        Ok((rest, got)) => {
            assert!(got == v);
            assert!(rest.is_empty());
        }
        Err(_) => panic!("parser rejects writer output"),
    }
}

// (withdrawn: a harness through Change::parse_following_header makes kani-compiler 0.68 panic at intrinsics.rs:243
// (`compare_bytes`), like every harness that reaches ActorId ordering; no obligation is offered for the change-chunk body.)
