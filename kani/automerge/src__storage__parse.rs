// U02k parse combinators -- the generic FnMut combinators that Verus does not take (child module of storage/parse.rs)
use super::*;

// length_prefixed(g): the element count comes from the wire.  For every input of up to 11 bytes the
// combinator returns (no panic -- in particular no `capacity overflow` from sizing a Vec by the count)
// and what it returns is bounded by the input: at most one element per remaining byte.
#[kani::proof]
#[kani::unwind(13)]
fn u02k_length_prefixed_total() {
    let b: [u8; 11] = kani::any();
    let n: usize = kani::any();
    kani::assume(n <= 11);
    let mut p = length_prefixed::<_, u8, leb128::Error>(take1::<leb128::Error>);
    match p(Input::new(&b[..n])) {
        Ok((rest, v)) => {
            kani::cover!(v.len() > 1);
            assert!(v.len() < n);
            assert!(rest.unconsumed_bytes().len() + v.len() < n);
        }
        Err(_) => {}
    }
}

// apply_n(n, g): n may come from the wire (RawColumns::parse); same obligation.
#[kani::proof]
#[kani::unwind(8)]
fn u02k_apply_n_total() {
    let b: [u8; 4] = kani::any();
    let k: usize = kani::any();
    let mut p = apply_n::<_, u8, leb128::Error>(k, take1::<leb128::Error>);
    match p(Input::new(&b)) {
        Ok((rest, v)) => {
            assert!(v.len() == k && k <= 4);
            assert!(rest.unconsumed_bytes().len() == 4 - k);
        }
        Err(e) => {
            assert!(k > 4);
            assert!(matches!(e, ParseError::Incomplete(_)));
        }
    }
}
