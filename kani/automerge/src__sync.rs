// U05 sync codecs -- MessageFlags / MessageVersion (child module of sync.rs)
use super::*;

// complete over all u8 flag values: encode then parse gives the same flags; reserved bit ignored
#[kani::proof]
#[kani::unwind(5)]
fn u05_flags_roundtrip() {
    let raw: u8 = kani::any();
    let f = MessageFlags(raw & 0x7f);
    let mut out = Vec::new();
    f.encode(&mut out);
    assert!(out.len() == 3 && out[0] == 2);
    assert!(MessageFlags::parse_bytes(&out[1..]) == f);
}

// flag algebra: set / contains over all u8 values and single-bit flags (complete, loop-free)
#[kani::proof]
fn u05_flags_set_contains() {
    let mut f = MessageFlags(kani::any());
    let before = f;
    let k: u8 = kani::any();
    kani::assume(k < 8);
    let flag = 1u8 << k;
    let j: u8 = kani::any();
    kani::assume(j < 8);
    f.set(flag);
    assert!(f.contains(flag));
    // other flags untouched
    if j != k {
        assert!(f.contains(1u8 << j) == before.contains(1u8 << j));
    }
    assert!(!MessageFlags::new().contains(flag));
}

// parse_bytes on arbitrary flag sections of up to 3 bytes: legacy bytes (< 0x80) are ignored,
// bitfield bytes are OR-ed (complete for that length)
#[kani::proof]
#[kani::unwind(5)]
fn u05_flags_parse_bytes() {
    let b: [u8; 3] = kani::any();
    let n: usize = kani::any();
    kani::assume(n <= 3);
    let f = MessageFlags::parse_bytes(&b[..n]);
    let mut want = 0u8;
    let mut i = 0;
    while i < n {
        if b[i] & 0x80 != 0 {
            want |= b[i] & 0x7f;
        }
        i += 1;
    }
    assert!(f.0 == want);
}
