// U05 sync codecs -- MessageFlags / MessageVersion (child module of sync.rs)
use super::*;

// complete over all u8 flag values: encode then parse gives the same flags; reserved bit ignored
#[kani::proof]
#[kani::unwind(5)]
fn u05_flags_roundtrip() {
    let raw: u8 = kani::any();
    let f = MessageFlags(raw & 0x7f);
    let mut out = Vec::new();
    f.encode(&mut out);
    assert!(out.len() == 3 && out[0] == 2);
    assert!(MessageFlags::parse_bytes(&out[1..]) == f);
}

// flag algebra: set / contains over all u8 values and single-bit flags (complete, loop-free)
#[kani::proof]
fn u05_flags_set_contains() {
    let mut f = MessageFlags(kani::any());
    let before = f;
    let k: u8 = kani::any();
    kani::assume(k < 8);
    let flag = 1u8 << k;
    let j: u8 = kani::any();
    kani::assume(j < 8);
    f.set(flag);
    assert!(f.contains(flag));
    // other flags untouched
    if j != k {
        assert!(f.contains(1u8 << j) == before.contains(1u8 << j));
    }
    assert!(!MessageFlags::new().contains(flag));
}

// parse_bytes on arbitrary flag sections of up to 3 bytes: legacy bytes (< 0x80) are ignored,
// bitfield bytes are OR-ed (complete for that length)
#[kani::proof]
#[kani::unwind(5)]
fn u05_flags_parse_bytes() {
    let b: [u8; 3] = kani::any();
    let n: usize = kani::any();
    kani::assume(n <= 3);
    let f = MessageFlags::parse_bytes(&b[..n]);
    let mut want = 0u8;
    let mut i = 0;
    while i < n {
        if b[i] & 0x80 != 0 {
            want |= b[i] & 0x7f;
        }
        i += 1;
    }
    assert!(f.0 == want);
}

// encode_many's count prefix, for EVERY count: the bytes written before the first element are exactly
// the LEB128 the (contracted) parser reads back as that count, with nothing left over.
// The element source reports a symbolic `len()` and yields nothing, so no loop depends on the count
// (complete over all usize counts; LEB128 loops bounded by the 10-byte width).
struct U05Counted(usize);
impl Iterator for U05Counted {
    type Item = u8;
    fn next(&mut self) -> Option<u8> {
        None
    }
    fn size_hint(&self) -> (usize, Option<usize>) {
        (self.0, Some(self.0))
    }
}
impl ExactSizeIterator for U05Counted {}

#[kani::proof]
#[kani::unwind(12)]
fn u05_encode_many_prefix() {
    let n: usize = kani::any();
    let mut out: Vec<u8> = Vec::with_capacity(16);
    encode_many(&mut out, U05Counted(n), |b: &mut Vec<u8>, x: u8| b.push(x));
    assert!(out.len() >= 1 && out.len() <= 10);
    match crate::storage::parse::leb128_u64::<crate::storage::parse::leb128::Error>(
        crate::storage::parse::Input::new(&out),
    ) {
        Ok((rest, got)) => {
            assert!(got == n as u64);
            assert!(rest.is_empty());
        }
        Err(_) => panic!("count prefix is not a LEB128 the parser accepts"),
    }
}

// (withdrawn: a Message::encode/decode round trip of even the empty-list skeleton exceeds 900 s of CBMC --
// Vec<Vec<u8>> / Vec<Have> growth -- so no obligation is offered for it.)

// Message::encode on the message SKELETON (all four lists empty), every version x flags combination: the bytes are
// the version byte, four zero counts and -- whatever the version -- the 3-byte flags section exactly when flags
// are present (a peer learns capabilities and read-only / reset signals from it).
// Bounded in the list lengths (all empty); complete in version and flags.
#[kani::proof]
#[kani::unwind(8)]
fn u05_message_encode_skeleton() {
    let v2: bool = kani::any();
    let has_flags: bool = kani::any();
    let raw: u8 = kani::any();
    let m = Message {
        heads: Vec::new(),
        need: Vec::new(),
        have: Vec::new(),
        changes: ChunkList::empty(),
        flags: if has_flags { Some(MessageFlags(raw & 0x7f)) } else { None },
        version: if v2 { MessageVersion::V2 } else { MessageVersion::V1 },
    };
    let bytes = m.encode();
    assert!(bytes.len() == if has_flags { 8 } else { 5 });
    assert!(bytes[0] == if v2 { MESSAGE_TYPE_SYNC_V2 } else { MESSAGE_TYPE_SYNC });
    assert!(bytes[1] == 0 && bytes[2] == 0 && bytes[3] == 0 && bytes[4] == 0);
    if has_flags {
        assert!(bytes[5] == 2 && bytes[6] == 0x02 && bytes[7] == (0x80 | (raw & 0x7f)));
    }
}
