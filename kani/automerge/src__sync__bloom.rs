// U01 bloom -- Kani harnesses compiled INTO the real crate (child module of sync::bloom, so the
// private fields and functions are visible).  Contracts are written as assume-pre / call / assert-post.
use super::*;

/// filter with a CONCRETE number of bytes and symbolic contents / parameters
fn filter_with_bits(n: usize) -> BloomFilter {
    let mut bits = Vec::with_capacity(n);
    for _ in 0..n {
        bits.push(kani::any::<u8>());
    }
    BloomFilter {
        num_entries: kani::any(),
        num_bits_per_entry: kani::any(),
        num_probes: kani::any(),
        bits,
    }
}

fn spec_bit(bits: &[u8], p: usize) -> bool {
    p / 8 < bits.len() && (bits[p / 8] & (1u8 << (p % 8))) != 0
}

// ---- get_bit: the contract ASSUMED by the Verus unit (external_body) is proved here on the real fn.
fn check_get_bit(n: usize) {
    let f = filter_with_bits(n);
    let probe: usize = kani::any();
    kani::cover!(probe / 8 < n || n == 0);
    let r = f.get_bit(probe);
    assert!(r.is_some() == (probe / 8 < n));
    if let Some(b) = r {
        assert!((b != 0) == spec_bit(&f.bits, probe));
    }
}

#[kani::proof]
#[kani::unwind(6)]
fn u01_get_bit_contract() {
    check_get_bit(0);
    check_get_bit(1);
    check_get_bit(2);
    check_get_bit(4);
}

// ---- bits_capacity: loop-free f64 arithmetic.  Complete over all u32 entry counts for the
// bits-per-entry value the library itself uses (from_hashes); total (no panic) for every pair.
#[kani::proof]
fn u01_bits_capacity_10() {
    let n: u32 = kani::any();
    let r = bits_capacity(n, BITS_PER_ENTRY) as u64;
    let prod = (n as u64) * 10;
    kani::cover!(prod > 0);
    // exact ceiling: room for n*10 bits and not a byte more
    assert!(r == (prod + 7) / 8);
}

#[kani::proof]
fn u01_bits_capacity_total() {
    let n: u32 = kani::any();
    let b: u32 = kani::any();
    let r = bits_capacity(n, b);
    kani::cover!(r > 0);
    // small enough that `8 * len` style arithmetic on 64-bit cannot overflow
    assert!(r <= (1usize << 61));
}

// ---- parse: total on every input up to the bound, and every filter it returns is well-formed
fn check_parse_total<const N: usize>() {
    let arr: [u8; N] = kani::any();
    let len: usize = kani::any();
    kani::assume(len <= N);
    let input = parse::Input::new(&arr[..len]);
    match BloomFilter::parse(input) {
        Ok((rest, f)) => {
            kani::cover!(f.num_entries != 0);
            // C17: the wire cannot ask for more probes than the fixed limit
            assert!(f.num_probes <= 255 || len == 0);
            assert!(f.bits.len() == bits_capacity(f.num_entries, f.num_bits_per_entry) || len == 0);
            assert!(f.bits.len() <= len);
            assert!(rest.unconsumed_bytes().len() <= len);
            if len == 0 {
                assert!(f == BloomFilter::default());
            }
        }
        Err(_) => {}
    }
}

#[kani::proof]
#[kani::unwind(12)]
fn u01_parse_wf_quick() {
    check_parse_total::<6>();
}

#[kani::proof]
#[kani::unwind(12)]
fn u01_parse_wf_thorough() {
    check_parse_total::<10>();
}

// ---- add_hash / contains_hash companion of the Verus contracts on fixed shapes
// (the probe count must be concrete: a symbolic Vec capacity exhausts CBMC)
fn check_add_contains(nbytes: usize, probes: u32) {
    let mut f = filter_with_bits(nbytes);
    f.num_probes = probes;
    kani::assume(f.num_entries != 0);
    let before = f.bits.clone();
    let h = ChangeHash(kani::any());
    f.add_hash(&h);
    assert!(f.bits.len() == nbytes);
    let mut i = 0;
    while i < nbytes {
        assert!(f.bits[i] & before[i] == before[i]);
        i += 1;
    }
    assert!(f.contains_hash(&h));
}

#[kani::proof]
#[kani::unwind(9)]
fn u01_add_contains_2x7() {
    check_add_contains(2, 7);
}

#[kani::proof]
#[kani::unwind(9)]
fn u01_add_contains_3x0() {
    check_add_contains(3, 0);
}

#[kani::proof]
#[kani::unwind(9)]
fn u01_add_contains_0x7() {
    // zero-bit filter (D1): add is a no-op, contains says "maybe"
    check_add_contains(0, 7);
}

// ---- query totality on small filters with arbitrary contents
fn check_query_total(nbytes: usize, probes: u32) {
    let mut f = filter_with_bits(nbytes);
    f.num_probes = probes;
    let h = ChangeHash(kani::any());
    // totality only: any boolean is acceptable for an arbitrary filter
    let _r = f.contains_hash(&h);
}

#[kani::proof]
#[kani::unwind(9)]
fn u01_query_total() {
    check_query_total(0, 7);
    check_query_total(0, 0);
    check_query_total(1, 1);
    check_query_total(2, 7);
}

// ---- from_hashes: the public constructor is the fold of add_hash and establishes wf
#[kani::proof]
#[kani::unwind(9)]
fn u01_from_hashes_2() {
    let h1 = ChangeHash(kani::any());
    let h2 = ChangeHash(kani::any());
    let hs = [h1, h2];
    let f = BloomFilter::from_hashes(hs.iter());
    assert!(f.num_entries == 2);
    assert!(f.num_probes == 7 && f.num_bits_per_entry == 10);
    assert!(f.bits.len() == 3);
    assert!(f.contains_hash(&h1));
    assert!(f.contains_hash(&h2));
}

// ---- to_bytes / parse round trip on concrete shapes with symbolic contents
fn check_roundtrip(entries: u32) {
    let n = bits_capacity(entries, 10);
    let mut f = filter_with_bits(n);
    f.num_entries = entries;
    f.num_bits_per_entry = 10;
    kani::assume(f.num_probes <= 255);
    let bytes = f.to_bytes();
    let r = BloomFilter::parse(parse::Input::new(&bytes));
    match r {
        Ok((rest, g)) => {
            assert!(rest.is_empty());
            assert!(g == f);
        }
        Err(_) => panic!("round trip failed"),
    }
}

#[kani::proof]
#[kani::unwind(12)]
fn u01_roundtrip_1() {
    check_roundtrip(1);
}

#[kani::proof]
#[kani::unwind(12)]
fn u01_roundtrip_3() {
    check_roundtrip(3);
}
