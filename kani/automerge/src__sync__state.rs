// U05 sync codecs -- sync::State persistence and read-only transitions (child module of sync/state.rs)
use super::*;

#[kani::proof]
#[kani::unwind(6)]
fn u05_set_read_only_transitions() {
    let mut s = State::new();
    s.read_only = kani::any();
    s.in_flight = kani::any();
    s.have_responded = kani::any();
    s.needs_reset = kani::any();
    s.peer_read_only = kani::any();
    s.their_capabilities = if kani::any() { Some(vec![Capability::SyncReset]) } else { None };
    let before = s.clone();
    let target: bool = kani::any();
    s.set_read_only(target);
    assert!(s.read_only == target);
    if before.read_only == target {
        assert!(s == before);
    }
    if before.read_only && !target {
        // read-only -> read-write: everything reset except the peer's capabilities; a reset is requested
        assert!(s.needs_reset && !s.in_flight && !s.have_responded && s.shared_heads.is_empty());
        assert!(s.their_capabilities == before.their_capabilities);
        assert!(!s.peer_read_only && s.sent_hashes.is_empty() && s.their_heads.is_none());
    }
    if !before.read_only && target {
        assert!(!s.in_flight && !s.have_responded && s.needs_reset == before.needs_reset);
        assert!(s.peer_read_only == before.peer_read_only && s.their_capabilities == before.their_capabilities);
    }
}

// (State::encode/parse round trip and decode totality were tried here: CBMC exceeds the 14 GB memory limit /
// 10 min even for one shared head, so no obligation about State persistence is offered -- see DESIGN.md U05)
