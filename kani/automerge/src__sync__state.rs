// U05 sync codecs -- sync::State persistence and read-only transitions (child module of sync/state.rs)
use super::*;

#[kani::proof]
#[kani::unwind(6)]
fn u05_set_read_only_transitions() {
    let mut s = State::new();
    s.read_only = kani::any();
    s.in_flight = kani::any();
    s.have_responded = kani::any();
    s.needs_reset = kani::any();
    s.peer_read_only = kani::any();
    s.their_capabilities = if kani::any() { Some(vec![Capability::SyncReset]) } else { None };
    let before = s.clone();
    let target: bool = kani::any();
    s.set_read_only(target);
    assert!(s.read_only == target);
    if before.read_only == target {
        assert!(s == before);
    }
    if before.read_only && !target {
        // read-only -> read-write: everything reset except the peer's capabilities; a reset is requested
        assert!(s.needs_reset && !s.in_flight && !s.have_responded && s.shared_heads.is_empty());
        assert!(s.their_capabilities == before.their_capabilities);
        assert!(!s.peer_read_only && s.sent_hashes.is_empty() && s.their_heads.is_none());
    }
    if !before.read_only && target {
        assert!(!s.in_flight && !s.have_responded && s.needs_reset == before.needs_reset);
        assert!(s.peer_read_only == before.peer_read_only && s.their_capabilities == before.their_capabilities);
    }
}

// decode is total on short inputs (header paths) and only accepts the state record type
#[kani::proof]
#[kani::unwind(8)]
fn u05_state_decode_total() {
    let b: [u8; 4] = kani::any();
    let n: usize = kani::any();
    kani::assume(n <= 4);
    match State::parse(parse::Input::new(&b[..n])) {
        Ok((_, s)) => {
            assert!(b[0] == 0x43 && n >= 2 && b[1] == 0);
            assert!(s.shared_heads.is_empty());
            assert!(!s.in_flight && !s.have_responded && !s.read_only && s.their_have == Some(Vec::new()));
        }
        Err(_) => {}
    }
}

// encode / parse round trip with one shared head: the persisted field survives, session fields reset
#[kani::proof]
#[kani::unwind(34)]
fn u05_state_roundtrip_1() {
    let mut s = State::new();
    s.shared_heads = vec![ChangeHash(kani::any())];
    s.in_flight = kani::any();
    s.have_responded = kani::any();
    let b = s.encode();
    assert!(b.len() == 34);
    match State::parse(parse::Input::new(&b)) {
        Ok((rest, d)) => {
            assert!(rest.is_empty());
            assert!(d.shared_heads.len() == 1 && d.shared_heads[0].0 == s.shared_heads[0].0);
            assert!(!d.in_flight && !d.have_responded && d.their_heads.is_none() && d.sent_hashes.is_empty());
        }
        Err(_) => panic!("state round trip failed"),
    }
}
