// U04 ids (OpId order / actor-index shifts) and U08 text width -- child module of types.rs
use super::*;

// ---- OpId::cmp is a total order, counter-major (Lamport), consistent with == : complete, loop-free
#[kani::proof]
fn u04_opid_order() {
    let a = OpId(kani::any(), kani::any());
    let b = OpId(kani::any(), kani::any());
    let c = OpId(kani::any(), kani::any());
    // consistency with Eq and antisymmetry
    assert!((a.cmp(&b) == Ordering::Equal) == (a == b));
    assert!(a.cmp(&b) == b.cmp(&a).reverse());
    assert!(a.partial_cmp(&b) == Some(a.cmp(&b)));
    // transitivity
    if a.cmp(&b) != Ordering::Greater && b.cmp(&c) != Ordering::Greater {
        assert!(a.cmp(&c) != Ordering::Greater);
    }
    // counter-major: a larger counter always wins, ties broken by actor index
    if a.0 < b.0 {
        assert!(a.cmp(&b) == Ordering::Less);
    }
    if a.0 == b.0 {
        assert!(a.cmp(&b) == a.1.cmp(&b.1));
    }
}

// ---- actor-table shifts preserve identity and order (C30): complete, loop-free
#[kani::proof]
fn u04_opid_actor_shift() {
    let a = OpId(kani::any(), kani::any());
    let b = OpId(kani::any(), kani::any());
    let idx: usize = kani::any();
    kani::assume(a.1 < u32::MAX && b.1 < u32::MAX);
    let a2 = a.with_new_actor(idx);
    let b2 = b.with_new_actor(idx);
    // counters untouched, the new index is skipped, order and distinctness preserved
    assert!(a2.0 == a.0);
    assert!(a2.actor() != idx);
    assert!(a2.actor() == if a.actor() >= idx { a.actor() + 1 } else { a.actor() });
    assert!(a.cmp(&b) == a2.cmp(&b2));
    assert!((a == b) == (a2 == b2));
    // removing the actor again is the inverse
    assert!(a2.without_actor(idx) == Some(a));
    // without_actor drops exactly the ids of that actor
    let w = a.without_actor(idx);
    assert!(w.is_none() == (a.actor() == idx));
    if let Some(w) = w {
        assert!(w.0 == a.0);
        assert!(w.with_new_actor(idx) == a);
    }
}

// ---- OpId::new: its unwraps are exactly the range conditions (complete, loop-free)
#[kani::proof]
fn u04_opid_new() {
    let c: u64 = kani::any();
    let a: usize = kani::any();
    kani::assume(c <= u32::MAX as u64 && a <= u32::MAX as usize);
    let o = OpId::new(c, a);
    assert!(o.counter() == c && o.actor() == a);
}

// ---------------------------------------------------------------- U08 text width (BOUNDED ONLY)
fn any_str<const N: usize>(buf: &[u8; N]) -> Option<&str> {
    let n: usize = kani::any();
    kani::assume(n <= N);
    std::str::from_utf8(&buf[..n]).ok()
}

fn check_width_laws<const N: usize>() {
    let a: [u8; N] = kani::any();
    if let Some(s) = any_str(&a) {
        let w8 = TextEncoding::Utf8CodeUnit.width(s);
        let wc = TextEncoding::UnicodeCodePoint.width(s);
        let w16 = TextEncoding::Utf16CodeUnit.width(s);
        kani::cover!(s.len() == N);
        // C24: each encoding's width is the length of the string in that encoding's units
        assert!(w8 == s.len());
        assert!(wc <= w16 && w16 <= w8);
        assert!(w16 <= 2 * wc);
        if s.len() > 0 {
            assert!(wc >= 1);
        }
        // a string that is one scalar value: widths by UTF-8 length
        if wc == 1 {
            assert!(w16 == if s.len() == 4 { 2 } else { 1 });
        }
    }
}

#[kani::proof]
#[kani::unwind(6)]
fn u08_width_laws_q() {
    check_width_laws::<2>();
}

#[kani::proof]
#[kani::unwind(6)]
fn u08_width_laws_t3() {
    check_width_laws::<3>();
}

#[kani::proof]
#[kani::unwind(7)]
fn u08_width_laws_t4() {
    check_width_laws::<4>();
}

// width of EVERY single scalar value, in the three std-defined encodings, against char::len_utf8 / len_utf16
// (complete over all `char`; loops bounded by the 4-byte encoding).  The hydrated text (`text_value`,
// `hydrate::Text`) splits strings with std's own encode_utf16 / chars, so index arithmetic that mixes the
// two (splice positions, patch indexes) stays in bounds only if `width` counts the same units (C37).
#[kani::proof]
#[kani::unwind(6)]
fn u08_width_single_scalar() {
    let c: char = kani::any();
    let mut buf = [0u8; 4];
    let s: &str = c.encode_utf8(&mut buf);
    assert!(TextEncoding::Utf8CodeUnit.width(s) == c.len_utf8());
    assert!(TextEncoding::UnicodeCodePoint.width(s) == 1);
    assert!(TextEncoding::Utf16CodeUnit.width(s) == c.len_utf16());
}

// ---------------------------------------------------------------- backing for assumed environment contracts
// ChangeHash::try_from(&[u8]) -- ASSUMED in the Verus unit u02 (used by parse::change_hash): Ok exactly for
// 32-byte slices, bytes copied.  Complete for every length 0..=33 (the function only compares the length to 32).
#[kani::proof]
#[kani::unwind(35)]
fn u04_changehash_try_from_slice() {
    let b: [u8; 33] = kani::any();
    let n: usize = kani::any();
    kani::assume(n <= 33);
    match ChangeHash::try_from(&b[..n]) {
        Ok(h) => {
            assert!(n == 32);
            let mut i = 0;
            while i < 32 {
                assert!(h.0[i] == b[i]);
                i += 1;
            }
        }
        Err(_) => assert!(n != 32),
    }
}

// ActorId::from(&[u8]) / to_bytes -- ASSUMED in the Verus units u04c (axiom_actor_of): an actor id is the byte
// string it was made from.  Bounded: lengths 0..=17 (both the inline and the heap representation of TinyVec).
#[kani::proof]
#[kani::unwind(20)]
fn u04_actorid_bytes_roundtrip() {
    let b: [u8; 17] = kani::any();
    let n: usize = kani::any();
    kani::assume(n <= 17);
    let a = ActorId::from(&b[..n]);
    let out = a.to_bytes();
    assert!(out.len() == n);
    let mut i = 0;
    while i < n {
        assert!(out[i] == b[i]);
        i += 1;
    }
}
