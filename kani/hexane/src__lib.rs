// U06 hexane codec -- Kani harnesses compiled into the real crate (child module of hexane's lib.rs)
use crate::*;

// ---- varint codec, complete over ALL u64 / i64 (loops bounded by the 10-byte encoding width)
#[kani::proof]
#[kani::unwind(12)]
fn u06_leb_unsigned_roundtrip() {
    let n: u64 = kani::any();
    let e = Leb128::encode_unsigned(n);
    let len = e.len();
    assert!(len >= 1 && len <= 10);
    assert!(len as u64 == Leb128::unsigned_size(n));
    assert!(len as u64 == crate::codec::ulebsize(n));
    assert!(Leb128::read_unsigned(&e) == Some((len, n)));
    assert!(matches!(Leb128::try_read_unsigned(&e), Ok((l, v)) if l == len && v == n));
    assert!(Leb128::unsigned_len(&e) == Some(len));
    // canonical: the last byte is non-zero unless the value is zero
    assert!(len == 1 || e[len - 1] != 0);
}

#[kani::proof]
#[kani::unwind(12)]
fn u06_leb_signed_roundtrip() {
    let m: i64 = kani::any();
    let e = Leb128::encode_signed(m);
    let len = e.len();
    assert!(len >= 1 && len <= 10);
    assert!(len as u64 == Leb128::signed_size(m));
    assert!(len as u64 == crate::codec::lebsize(m));
    assert!(Leb128::read_signed(&e) == Some((len, m)));
    assert!(matches!(Leb128::try_read_signed(&e), Ok((l, v)) if l == len && v == m));
    assert!(Leb128::signed_len(&e) == Some(len));
}

// ---- decoders are total on arbitrary bytes (C15/C35) and never read past the buffer
fn check_int_unpack_total<const N: usize>() {
    let bytes: [u8; N] = kani::any();
    let n: usize = kani::any();
    kani::assume(n <= N);
    let data = &bytes[..n];
    if let Ok((k, _v)) = <u64 as RleValue>::try_unpack::<Leb128>(data) {
        assert!(k >= 1 && k <= n && k <= 10);
        assert!(<u64 as RleValue>::value_len::<Leb128>(data) == Some(k));
    }
    if let Ok((k, _v)) = <i64 as RleValue>::try_unpack::<Leb128>(data) {
        assert!(k >= 1 && k <= n && k <= 10);
        assert!(<i64 as RleValue>::value_len::<Leb128>(data) == Some(k));
    }
}

#[kani::proof]
#[kani::unwind(13)]
fn u06_int_unpack_total() {
    check_int_unpack_total::<11>();
}

// ---- backs the codec-trait contract ASSUMED by the Verus unit u06v: for Leb128 the unchecked reader and the
// checked reader compute the same partial function and consume between 1 and data.len() bytes
// (complete: all inputs up to one byte more than the longest encoding)
#[kani::proof]
#[kani::unwind(13)]
fn u06_codec_reads_agree() {
    let bytes: [u8; 11] = kani::any();
    let n: usize = kani::any();
    kani::assume(n <= 11);
    let data = &bytes[..n];
    let a = Leb128::read_unsigned(data);
    let b = Leb128::try_read_unsigned(data).ok();
    assert!(a == b);
    if let Some((k, _)) = a {
        assert!(k >= 1 && k <= n);
    }
}

// ---- the byte range of a signed count header (C39 / C35): `signed_bytes` is what `rewrite_lit_header` splices out when
// the loader cuts a literal run of an UNTRUSTED column, so it must be exactly the bytes the reader consumes -- for every
// input the reader accepts, minimal encoding or padded (complete: all inputs up to one byte more than the longest encoding)
#[kani::proof]
#[kani::unwind(13)]
fn u06_signed_bytes_is_consumed() {
    let bytes: [u8; 11] = kani::any();
    let n: usize = kani::any();
    kani::assume(n <= 11);
    let data = &bytes[..n];
    // (only for inputs the reader accepts: `signed_len` counts continuation bits and says 10 for a ten-byte value that
    // overflows i64, which `read_signed` rejects -- the loader has rejected such a header before it gets here)
    if let Some((k, _)) = Leb128::read_signed(data) {
        let r = Leb128::signed_bytes(data, 0);
        assert!(r.start == 0 && r.end == k);
        assert!(Leb128::signed_len(data) == Some(k));
    }
}

fn check_narrow_unpack_total<const N: usize>() {
    let bytes: [u8; N] = kani::any();
    let n: usize = kani::any();
    kani::assume(n <= N);
    let data = &bytes[..n];
    if let Ok((k, v)) = <u32 as RleValue>::try_unpack::<Leb128>(data) {
        assert!(k <= n);
        assert!(matches!(<u64 as RleValue>::try_unpack::<Leb128>(data), Ok((k2, v2)) if k2 == k && v2 == v as u64));
    }
    if let Ok((k, v)) = <std::num::NonZeroU32 as RleValue>::try_unpack::<Leb128>(data) {
        assert!(k <= n && v.get() != 0);
    }
    if let Ok((k, _)) = <usize as RleValue>::try_unpack::<Leb128>(data) {
        assert!(k <= n);
    }
}

#[kani::proof]
#[kani::unwind(13)]
fn u06_narrow_unpack_total() {
    check_narrow_unpack_total::<6>();
}

// ---- C39: the checked string decoder only yields valid UTF-8, stays inside the buffer, and on every
// buffer it accepts the UNCHECKED decoder (from_utf8_unchecked) returns the same (len, str)
fn check_string_unpack<const N: usize>() {
    let bytes: [u8; N] = kani::any();
    let n: usize = kani::any();
    kani::assume(n <= N);
    let data = &bytes[..n];
    match <String as RleValue>::try_unpack::<Leb128>(data) {
        Ok((k, s)) => {
            kani::cover!(s.len() > 1);
            assert!(k <= n);
            assert!(k >= 1 && s.len() < k);
            let hdr = k - s.len();
            assert!(std::str::from_utf8(&data[hdr..k]).is_ok());
            assert!(s.as_bytes() == &data[hdr..k]);
            let (k2, s2) = <String as RleValue>::unpack::<Leb128>(data);
            assert!(k2 == k && s2.as_bytes() == s.as_bytes());
            assert!(<String as RleValue>::value_len::<Leb128>(data) == Some(k));
        }
        Err(_) => {}
    }
    match <Vec<u8> as RleValue>::try_unpack::<Leb128>(data) {
        Ok((k, b)) => {
            assert!(k <= n && b.len() < k);
            assert!(<Vec<u8> as RleValue>::value_len::<Leb128>(data) == Some(k));
        }
        Err(_) => {
            assert!(<Vec<u8> as RleValue>::value_len::<Leb128>(data).is_none());
        }
    }
}

#[kani::proof]
#[kani::unwind(8)]
fn u06_string_unpack_q() {
    check_string_unpack::<4>();
}

#[kani::proof]
#[kani::unwind(10)]
fn u06_string_unpack_t() {
    check_string_unpack::<6>();
}

// a length prefix close to u64::MAX must be rejected, not wrap around (explicit extreme-value case)
#[kani::proof]
#[kani::unwind(13)]
fn u06_string_unpack_huge_len() {
    let len: u64 = kani::any();
    kani::assume(len > 16);
    let e = Leb128::encode_unsigned(len);
    let mut data = [0u8; 12];
    let mut i = 0;
    while i < e.len() {
        data[i] = e[i];
        i += 1;
    }
    data[10] = kani::any();
    data[11] = kani::any();
    assert!(<String as RleValue>::try_unpack::<Leb128>(&data).is_err());
    assert!(<Vec<u8> as RleValue>::try_unpack::<Leb128>(&data).is_err());
    assert!(<Vec<u8> as RleValue>::value_len::<Leb128>(&data).is_none());
}
