// U06 hexane -- one step of the validating RLE segment decoder (child module of rle/decoder.rs)
use super::*;

fn check_segment_total_u64<const N: usize>() {
    let bytes: [u8; N] = kani::any();
    let n: usize = kani::any();
    kani::assume(n <= N);
    let mut d = RleDecoder::<u64, Leb128>::new(&bytes[..n]);
    // C35/C15: a value or an error for every byte string -- no panic, no overflow (D7: i64::MIN header)
    match d.try_next_segment() {
        Ok(Some(_)) => {
            assert!(d.byte_pos <= n);
        }
        Ok(None) => {
            assert!(n == 0);
        }
        Err(_) => {}
    }
}

#[kani::proof]
#[kani::unwind(13)]
fn u06_rle_segment_total_u64() {
    check_segment_total_u64::<11>();
}

#[kani::proof]
#[kani::unwind(13)]
fn u06_rle_segment_total_i64() {
    let bytes: [u8; 11] = kani::any();
    let mut d = RleDecoder::<i64, Leb128>::new(&bytes);
    if let Ok(Some(_)) = d.try_next_segment() {
        assert!(d.byte_pos <= 11);
        // a second step (literal body or next header) is total as well
        let _ = d.try_next_segment();
        assert!(d.byte_pos <= 11);
    }
}

#[kani::proof]
#[kani::unwind(10)]
fn u06_rle_segment_utf8() {
    let bytes: [u8; 5] = kani::any();
    let mut d = RleDecoder::<String, Leb128>::new(&bytes);
    if let Ok(Some(RleSegment::Run { value, .. })) = d.try_next_segment() {
        // C39: a string yielded by the validating path is valid UTF-8 and lies inside the buffer
        assert!(std::str::from_utf8(value.as_bytes()).is_ok());
        assert!(d.byte_pos <= 5);
    }
}

// ---- KNOWN FINDING (listed in known_findings.txt, not repaired) -------------------------------------------------
// The call-site condition of automerge's BUNDLE decoder: storage/bundle/builder.rs builds `hexane::decoder` /
// `DeltaDecoder` over the raw column bytes of a bundle chunk and BundleStorage::verify "validates" the chunk by
// running those same streaming iterators -- so `Iterator::next` of the streaming (unchecked) decoder meets bytes
// no validating pass has seen.  The obligation "next() on ANY bytes returns, it does not panic" (C15 at that
// boundary) FAILS: a dangling varint continuation byte unwraps an Err in `RleValue::unpack` (lib.rs), a null run
// in a non-nullable column panics in `get_null`.  For String columns the same path reaches the unchecked
// `from_utf8_unchecked` in `<String as RleValue>::unpack` without validation (C39).
#[kani::proof]
#[kani::unwind(8)]
fn u06_bundle_decoder_call_site() {
    let bytes: [u8; 2] = kani::any();
    let n: usize = kani::any();
    kani::assume(n <= 2);
    // what `Iterator::next` of the streaming decoder does with the bytes of a value: the UNCHECKED unpack
    let _ = <u64 as crate::RleValue>::unpack::<Leb128>(&bytes[..n]);
}
