"""Lexer-aware extraction of Rust items from /repo source files.

The extractor never rewrites code.  It copies the text of an item verbatim and
applies only the rules in RULES (each application is counted and reported in the
evidence).  Anything it cannot place (an anchor that matches zero or several
times, an item that is missing) raises ExtractError, which the driver turns into
exit 2 (tool failure) -- never into a VIOLATION.
"""
import re


class ExtractError(Exception):
    pass


# --------------------------------------------------------------------------- masking
def mask(src):
    """Return (masked, comments): `masked` has the same length as `src`, with the
    contents of comments, string/char literals replaced by spaces (newlines kept).
    `comments` is a list of (start, end, is_doc) spans."""
    out = list(src)
    comments = []
    i, n = 0, len(src)

    def blank(a, b):
        for k in range(a, b):
            if out[k] != "\n":
                out[k] = " "

    while i < n:
        c = src[i]
        if c == "/" and i + 1 < n and src[i + 1] == "/":
            j = src.find("\n", i)
            if j < 0:
                j = n
            comments.append((i, j))
            blank(i, j)
            i = j
        elif c == "/" and i + 1 < n and src[i + 1] == "*":
            depth, j = 1, i + 2
            while j < n and depth:
                if src.startswith("/*", j):
                    depth += 1
                    j += 2
                elif src.startswith("*/", j):
                    depth -= 1
                    j += 2
                else:
                    j += 1
            comments.append((i, j))
            blank(i, j)
            i = j
        elif c == '"' or (c in "br" and re.match(r'(b?r#*"|b")', src[i:i + 8]) and (i == 0 or not (src[i - 1].isalnum() or src[i - 1] == "_"))):
            m = re.match(r'(b?)(r(#*))?"', src[i:])
            if not m:
                i += 1
                continue
            start = i + m.end()
            if m.group(2) is not None:
                term = '"' + m.group(3)
                j = src.find(term, start)
                if j < 0:
                    raise ExtractError("unterminated raw string")
                blank(start, j)
                i = j + len(term)
            else:
                j = start
                while j < n and src[j] != '"':
                    j += 2 if src[j] == "\\" else 1
                blank(start, j)
                i = j + 1
        elif c == "'":
            # char literal or lifetime
            m = re.match(r"'(\\(x[0-9a-fA-F]{2}|u\{[0-9a-fA-F_]+\}|.)|[^\\'])'", src[i:])
            if m:
                blank(i + 1, i + m.end() - 1)
                i += m.end()
            else:
                i += 1
        else:
            i += 1
    return "".join(out), comments


OPEN = {"(": ")", "[": "]", "{": "}"}
CLOSE = {")": "(", "]": "[", "}": "{"}


def match_close(masked, i):
    """masked[i] is an opening bracket; return index of its closing bracket."""
    stack = []
    n = len(masked)
    k = i
    while k < n:
        ch = masked[k]
        if ch in OPEN:
            stack.append(ch)
        elif ch in CLOSE:
            if not stack or stack[-1] != CLOSE[ch]:
                raise ExtractError("unbalanced bracket at offset %d" % k)
            stack.pop()
            if not stack:
                return k
        k += 1
    raise ExtractError("no closing bracket for offset %d" % i)


class Source:
    def __init__(self, path, text):
        self.path = path
        self.text = text
        self.masked, self.comments = mask(text)
        self._blocks = None

    def line_of(self, off):
        return self.text.count("\n", 0, off) + 1

    # ------------------------------------------------------------------ block structure
    def blocks(self):
        """List of (header_text_normalised, open_off, close_off, depth) for every `{}` block
        whose header starts with impl/mod/trait (the containers we address)."""
        if self._blocks is not None:
            return self._blocks
        res = []
        for m in re.finditer(r"(?m)^[ \t]*(?:pub(?:\([^)]*\))?\s+)?(?:unsafe\s+)?(impl|mod|trait)\b", self.masked):
            start = m.start(1)
            # header ends at first `{` or `;` at bracket depth 0
            k = start
            depth = 0
            while k < len(self.masked):
                ch = self.masked[k]
                if ch in "([":
                    depth += 1
                elif ch in ")]":
                    depth -= 1
                elif ch == "{" and depth == 0:
                    break
                elif ch == ";" and depth == 0:
                    k = -1
                    break
                k += 1
            if k < 0 or k >= len(self.masked):
                continue
            close = match_close(self.masked, k)
            header = " ".join(self.text[start:k].split())
            res.append((header, k, close, start))
        self._blocks = res
        return res

    def enclosing(self, off):
        """Headers of impl/mod/trait blocks enclosing offset, outermost first."""
        return [b for b in self.blocks() if b[1] < off < b[2]]

    # ------------------------------------------------------------------ item lookup
    def find_item(self, kind, name, container=None):
        """Locate an item.  kind in fn/struct/enum/type/const/static/impl/trait.
        container: substring that must occur in the normalised header of the innermost
        enclosing impl/trait block (None => the item must be at module level, i.e. not
        inside any impl/trait block; enclosing `mod` blocks other than `tests` are allowed).
        Returns (start, end) offsets of the item text including leading attributes."""
        if kind == "impl":
            cands = [b for b in self.blocks() if b[0].startswith("impl") and name in b[0]]
            cands = [b for b in cands if not self._in_tests(b[3])]
            exact = [b for b in cands if b[0] == name]
            if len(exact) == 1:
                cands = exact
            if len(cands) != 1:
                raise ExtractError("%s: impl header containing %r matches %d blocks" % (self.path, name, len(cands)))
            b = cands[0]
            return self._with_attrs(b[3]), b[2] + 1
        pat = re.compile(r"\b%s\s+%s\b" % (re.escape(kind), re.escape(name)))
        hits = []
        for m in pat.finditer(self.masked):
            off = m.start()
            if self._in_tests(off):
                continue
            enc = [b for b in self.enclosing(off) if not b[0].startswith("mod")]
            # must be directly inside (not nested in another fn body): depth check below
            if container is None:
                if enc:
                    continue
            else:
                if not enc or container not in enc[-1][0]:
                    continue
                # exact header match preferred
            if not self._is_item_position(off, enc[-1][1] if enc else None):
                continue
            hits.append((off, enc[-1][0] if enc else None))
        if container is not None and len(hits) > 1:
            exact = [h for h in hits if h[1] == container]
            if len(exact) == 1:
                hits = exact
        if container is None and len(hits) > 1:
            # prefer the item that is not nested in any `mod` block (file top level)
            top = [h for h in hits if not self.enclosing(h[0])]
            if len(top) == 1:
                hits = top
        if len(hits) != 1:
            raise ExtractError("%s: %s %s (container=%r) matches %d items" % (self.path, kind, name, container, len(hits)))
        off = hits[0][0]
        start = self._item_start(off)
        end = self._item_end(off)
        return start, end

    def _in_tests(self, off):
        for b in self.enclosing(off):
            if re.match(r"mod\s+(tests?|verif_kani)\b", b[0]):
                return True
        return False

    def _is_item_position(self, off, container_open):
        """True if `off` is directly inside the container block (or file top level / a mod),
        i.e. the brace depth between the container's `{` and off is zero."""
        lo = container_open + 1 if container_open is not None else 0
        depth = 0
        seg = self.masked[lo:off]
        if container_open is None:
            # allow enclosing mod blocks: subtract their opening braces
            depth -= sum(1 for b in self.enclosing(off) if b[0].startswith("mod"))
        for ch in seg:
            if ch == "{":
                depth += 1
            elif ch == "}":
                depth -= 1
        return depth == 0

    def _item_start(self, off):
        # go to the start of the line holding visibility/keywords
        ls = self.masked.rfind("\n", 0, off) + 1
        # the item may have `pub(crate) const fn` etc. on the same line; the keyword line is ls
        return self._with_attrs(ls)

    def _with_attrs(self, ls):
        ls = self.masked.rfind("\n", 0, ls) + 1
        # walk back over attribute lines / comment lines / blank-free
        while ls > 0:
            pe = ls - 1
            ps = self.masked.rfind("\n", 0, pe) + 1
            line_m = self.masked[ps:pe].strip()
            line_t = self.text[ps:pe].strip()
            if line_m.startswith("#[") or (line_m == "" and line_t.startswith("//")):
                ls = ps
                continue
            # multi-line attribute: a line ending with `)]` whose start `#[` is further up
            if line_m.endswith("]") and not line_m.startswith("#["):
                # search upwards for the `#[` that opens it
                k = ps
                found = None
                for _ in range(12):
                    if k == 0:
                        break
                    pps = self.masked.rfind("\n", 0, k - 1) + 1
                    lm = self.masked[pps:k - 1].strip()
                    if lm.startswith("#["):
                        found = pps
                        break
                    if lm.endswith(";") or lm.endswith("}") or lm.endswith("{"):
                        break
                    k = pps
                if found is not None:
                    # verify brackets balance between found and pe
                    seg = self.masked[found:pe]
                    if seg.count("[") == seg.count("]"):
                        ls = found
                        continue
            break
        return ls

    def _item_end(self, off):
        k = off
        depth = 0
        while k < len(self.masked):
            ch = self.masked[k]
            if ch in "([":
                depth += 1
            elif ch in ")]":
                depth -= 1
            elif ch == "{" and depth == 0:
                return match_close(self.masked, k) + 1
            elif ch == ";" and depth == 0:
                return k + 1
            k += 1
        raise ExtractError("item end not found")


# --------------------------------------------------------------------------- text rules
DROP_ATTR = re.compile(
    r"^(derive|error|from|inline|instrument|tracing::instrument|allow|expect|cfg_attr|doc|must_use|serde|non_exhaustive)"
)
KEEP_DERIVES = {"Clone", "Copy", "PartialEq", "Eq"}


class Rules:
    """Counts every rule application for the evidence file."""

    def __init__(self):
        self.counts = {}

    def hit(self, name, n=1):
        if n:
            self.counts[name] = self.counts.get(name, 0) + n


def strip_comments(text, rules):
    masked, comments = mask(text)
    if not comments:
        return text
    out = []
    last = 0
    for a, b in comments:
        out.append(text[last:a])
        last = b
    out.append(text[last:])
    rules.hit("drop:comment", len(comments))
    res = "".join(out)
    # remove lines that became empty
    res = re.sub(r"(?m)^[ \t]+$", "", res)
    res = re.sub(r"\n{3,}", "\n\n", res)
    return res


# cargo features of the crates under contract that are OFF in the default build
OFF_FEATURES = ("slow_path_assertions",)


def process_attrs(text, rules, keep_derives=True):
    """Drop attributes per the DESIGN table.  derive(...) keeps only Clone/Copy/PartialEq/Eq
    (Verus understands these) -- every other derive is dropped and counted."""
    masked, _ = mask(text)
    out = []
    i = 0
    pos = 0
    for m in re.finditer(r"#\s*\[", masked):
        if m.start() < pos:
            continue
        ob = masked.index("[", m.start())
        cb = match_close(masked, ob)
        inner = text[ob + 1:cb].strip()
        repl = None
        if inner.startswith("derive"):
            names = [x.strip() for x in inner[inner.index("(") + 1:inner.rindex(")")].split(",") if x.strip()]
            kept = [x for x in names if x in KEEP_DERIVES] if keep_derives else []
            dropped = [x for x in names if x not in kept]
            for d in dropped:
                rules.hit("drop:derive(%s)" % d)
            repl = "#[derive(%s)]" % ", ".join(kept) if kept else ""
        elif DROP_ATTR.match(inner):
            rules.hit("drop:attr(%s)" % re.match(r"[A-Za-z_:]+", inner).group(0))
            repl = ""
        elif inner.startswith("cfg(test)"):
            raise ExtractError("cfg(test) item inside extracted text")
        elif re.fullmatch(r'cfg\(\s*not\(\s*feature\s*=\s*"(%s)"\s*\)\s*\)' % "|".join(OFF_FEATURES), inner):
            # the feature is off in the default build (the one the test suite and cargo-kani compile): the guarded
            # statement is live code -- keep it, drop only the attribute
            rules.hit("drop:attr(cfg(not(feature-off)))")
            repl = ""
        elif re.fullmatch(r'cfg\(\s*feature\s*=\s*"(%s)"\s*\)' % "|".join(OFF_FEATURES), inner):
            # code under a cargo feature that is off in the default build is not compiled: drop the attribute
            # together with the block / statement it guards
            j = cb + 1
            while masked[j].isspace():
                j += 1
            if masked[j] == "{":
                end = match_close(masked, j) + 1
            else:
                d, end = 0, j
                while not (masked[end] == ";" and d == 0):
                    d += masked[end] in "([{"
                    d -= masked[end] in ")]}"
                    end += 1
                end += 1
            rules.hit("drop:cfg-off-feature-code")
            out.append(text[pos:m.start()])
            pos = end
            continue
        else:
            raise ExtractError("unknown attribute #[%s] in extracted item" % inner[:40])
        out.append(text[pos:m.start()])
        out.append(repl)
        pos = cb + 1
    out.append(text[pos:])
    res = "".join(out)
    res = re.sub(r"(?m)^[ \t]+$\n", "", res)
    return res


def drop_macro_stmts(text, rules):
    """Drop `tracing::xxx!(...);`, `debug_assert*!(...);`, `log!`-style statements."""
    masked, _ = mask(text)
    out = []
    pos = 0
    for m in re.finditer(r"\b(tracing::\w+|debug_assert(?:_eq|_ne)?|trace|debug)!\s*\(", masked):
        if m.start() < pos:
            continue
        ob = m.end() - 1
        cb = match_close(masked, ob)
        end = cb + 1
        mm = re.match(r"\s*;", masked[end:])
        if mm:
            end += mm.end()
        out.append(text[pos:m.start()])
        pos = end
        rules.hit("drop:stmt(%s!)" % m.group(1))
    out.append(text[pos:])
    return "".join(out)


def widen_vis(text, rules, fields=False):
    n = len(re.findall(r"\bpub\s*\((crate|super|in [^)]*)\)", text))
    text = re.sub(r"\bpub\s*\((crate|super|in [^)]*)\)", "pub", text)
    rules.hit("widen:pub(crate)->pub", n)
    # private module-level consts become pub (Verus: a public spec may not mention a private const)
    text, k = re.subn(r"(?m)^(\s*)const\s+([A-Z_0-9]+)\s*:", r"\1pub const \2:", text)
    rules.hit("widen:const->pub", k)
    return text


def widen_fields(text, rules):
    """Make private named struct fields / tuple fields pub (Verus open specs need it)."""
    masked, _ = mask(text)
    m = re.search(r"\bstruct\s+\w+", masked)
    if not m:
        return text
    # find body
    k = m.end()
    depth = 0
    while k < len(masked) and masked[k] not in "{(;":
        if masked[k] == "<":
            depth += 1
        k += 1
    if k >= len(masked) or masked[k] == ";":
        return text
    ob = k
    cb = match_close(masked, ob)
    body_m = masked[ob + 1:cb]
    body_t = text[ob + 1:cb]
    # split on top-level commas
    parts = []
    d = 0
    last = 0
    for idx, ch in enumerate(body_m):
        if ch in "([{<":
            d += 1
        elif ch == ">" and idx > 0 and body_m[idx - 1] == "-":
            pass   # the arrow of a `fn() -> T` type, not a closing angle bracket
        elif ch in ")]}>":
            d -= 1
        elif ch == "," and d == 0:
            parts.append((last, idx))
            last = idx + 1
    parts.append((last, len(body_m)))
    new = []
    cnt = 0
    for a, b in parts:
        seg = body_t[a:b]
        if seg.strip() and not re.match(r"\s*(#\[[^\]]*\]\s*)*pub\b", seg):
            lead = re.match(r"\s*(#\[[^\]]*\]\s*)*", seg).end()
            seg = seg[:lead] + "pub " + seg[lead:]
            cnt += 1
        new.append(seg)
    rules.hit("widen:field->pub", cnt)
    return text[:ob + 1] + ",".join(new) + text[cb:]


SUBSTS = [
    # (name, regex, replacement) -- identical run-time meaning, trusted, counted
    ("subst:u32::from_le_bytes->vf_u32_from_le_bytes", re.compile(r"\bu32::from_le_bytes\("), "vf_u32_from_le_bytes("),
    ("subst:closure |_| -> |_v|", re.compile(r"\|_\|"), "|_v0|"),
    # a zero-sized variance marker: `fn() -> C` (function-pointer types are outside this Verus) carries no run-time content
    ("subst:PhantomData<fn() -> T> -> PhantomData<T>", re.compile(r"PhantomData<fn\(\) -> (\w+)>"), r"PhantomData<\1>"),
]


def apply_substs(text, rules, extra=()):
    for name, rx, rep in list(SUBSTS) + list(extra):
        text, n = rx.subn(rep, text)
        rules.hit(name, n)
    return text


def clean_item(text, rules, is_struct=False, extra_substs=()):
    text = strip_comments(text, rules)
    text = process_attrs(text, rules)
    text = drop_macro_stmts(text, rules)
    text = widen_vis(text, rules)
    if is_struct:
        text = widen_fields(text, rules)
    text = apply_substs(text, rules, extra_substs)
    return text
