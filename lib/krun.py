"""Engine K: inject #[cfg(kani)] harness modules into a scratch copy of /repo/rust and run cargo kani.

Nothing in the copied sources is rewritten: one `mod verif_kani;` declaration (with an absolute
#[path]) is APPENDED to each anchored source file.  The scratch copy lives outside /repo and
/verif and is removed after the run; only the cargo build cache under /verif/.cache persists.
"""
import fcntl
import os
import re
import shutil
import subprocess
import time

VERIF = os.path.dirname(os.path.dirname(os.path.abspath(__file__)))
SCRATCH = "/tmp/verif-scratch"
CACHE = os.path.join(VERIF, ".cache", "kani-target")
LOCK = os.path.join(VERIF, ".cache", "kani.lock")


class KaniToolFailure(Exception):
    pass


def harness_files():
    """kani/<crate>/<path with __ for />.rs  ->  (crate, relative source path)"""
    res = []
    base = os.path.join(VERIF, "kani")
    for crate in sorted(os.listdir(base)):
        d = os.path.join(base, crate)
        if not os.path.isdir(d):
            continue
        for fn in sorted(os.listdir(d)):
            if fn.endswith(".rs"):
                rel = fn[:-3].replace("__", "/") + ".rs"
                res.append((crate, rel, os.path.join(d, fn)))
    return res


def prepare_scratch(repo, only_crates=None):
    src = os.path.join(repo, "rust")
    if os.path.exists(SCRATCH):
        shutil.rmtree(SCRATCH)
    os.makedirs(SCRATCH)
    dst = os.path.join(SCRATCH, "rust")
    subprocess.run(["rsync", "-a", "--exclude", "target", "--exclude", "node_modules", "--exclude", "*.amrg",
                    "--exclude", "benchmark-battery/data", "--exclude", "benchmark-battery/egwalker-paper",
                    src + "/", dst + "/"], check=True)
    injected = []
    for crate, rel, hpath in harness_files():
        if only_crates and crate not in only_crates:
            continue
        target = os.path.join(dst, crate, rel)
        if not os.path.exists(target):
            raise KaniToolFailure("anchor lost: %s/%s does not exist (harness %s)" % (crate, rel, hpath))
        with open(target, "a") as f:
            f.write("\n#[cfg(kani)]\n#[path = \"%s\"]\nmod verif_kani;\n" % hpath)
        injected.append("%s/%s" % (crate, rel))
    return dst, injected


HARNESS_RE = re.compile(r"(?:Thread (\d+): )?Checking harness ([\w:]+)\.\.\.")


def _parse_block(full, part):
    ent = {"full": full, "raw": part[-6000:] if len(part) > 6000 else part}
    vm = re.search(r"VERIFICATION:- (SUCCESSFUL|FAILED)", part)
    ent["status"] = vm.group(1) if vm else "UNKNOWN"
    tm = re.search(r"Verification Time: ([\d.]+)s", part)
    ent["time_s"] = float(tm.group(1)) if tm else None
    failed = []
    for fm in re.finditer(r"Failed Checks: (.*)\n\s*File: \"([^\"]*)\", line (\d+), in ([^\n]*)", part):
        failed.append({"desc": fm.group(1).strip(), "file": fm.group(2), "line": int(fm.group(3)), "in": fm.group(4).strip()})
    ent["failed_checks"] = failed
    cm = re.search(r"\*\* (\d+) of (\d+) cover properties satisfied", part)
    ent["covers"] = (int(cm.group(1)), int(cm.group(2))) if cm else None
    sm = re.search(r"\*\* (\d+) of (\d+) failed", part)
    ent["checks"] = (int(sm.group(1)), int(sm.group(2))) if sm else None
    ent["unwind_fail"] = any("unwinding assertion" in f["desc"] for f in failed)
    if "CBMC timed out" in part:
        ent["status"] = "TIMEOUT"
    elif "run out of memory" in part or "std::bad_alloc" in part:
        ent["status"] = "OOM"
    elif "CBMC failed" in part and not failed:
        ent["status"] = "CBMC-ERROR"
    ent["stubs"] = re.findall(r"- Stub: ([^\n]+)", part)
    pb = re.search(r"Concrete playback unit test for `[^`]*`:\n```\n(.*?)```", part, re.S)
    ent["playback"] = pb.group(1) if pb else None
    return ent


def parse_kani_output(out):
    """Split cargo-kani output per harness (handles the `Thread N:` framing of -j runs)."""
    res = {}
    lines = out.split("\n")
    cur_of_thread = {}
    blocks = {}  # full -> list of lines
    cur = None
    for ln in lines:
        m = HARNESS_RE.match(ln)
        if m:
            th, full = m.group(1), m.group(2)
            blocks.setdefault(full, [])
            if th is None:
                cur = full
            else:
                cur_of_thread[th] = full
                cur = None
            continue
        sm = re.match(r"Thread (\d+):\s+(- Stub: .*)$", ln)
        if sm and sm.group(1) in cur_of_thread:
            blocks[cur_of_thread[sm.group(1)]].append("  " + sm.group(2))
            continue
        tm = re.match(r"Thread (\d+): ?$", ln)
        if tm and tm.group(1) in cur_of_thread:
            cur = cur_of_thread[tm.group(1)]
            continue
        if ln.startswith("Manual Harness Summary") or ln.startswith("Complete - "):
            cur = None
            continue
        if cur is not None:
            blocks[cur].append(ln)
    for full, ls in blocks.items():
        res[full.split("::")[-1]] = _parse_block(full, "\n".join(ls))
    return res


def run_kani(repo, crate, harnesses, jobs=8, timeout_s=600, playback=False, keep=False, log=None, mem_gb=14):
    """Run the named harnesses of one crate.  Returns (results, meta)."""
    os.makedirs(os.path.dirname(LOCK), exist_ok=True)
    with open(LOCK, "w") as lk:
        fcntl.flock(lk, fcntl.LOCK_EX)
        t0 = time.time()
        dst, injected = prepare_scratch(repo, only_crates=[crate])
        try:
            cdir = os.path.join(dst, crate)
            cmd = ["cargo", "kani", "-Z", "function-contracts", "-Z", "stubbing", "-Z", "unstable-options",
                   "--harness-timeout", "%ds" % timeout_s, "--output-format", "terse"]
            if playback:
                # concrete playback is incompatible with -j > 1
                cmd += ["-Z", "concrete-playback", "--concrete-playback=print"]
            else:
                cmd += ["-j", str(jobs)]
            for h in harnesses:
                cmd += ["--harness", h]
            env = dict(os.environ)
            env["CARGO_NET_OFFLINE"] = "true"
            env["CARGO_TARGET_DIR"] = CACHE
            def limit():
                import resource
                lim = int(mem_gb * (1 << 30))
                resource.setrlimit(resource.RLIMIT_AS, (lim, lim))
            p = subprocess.run(cmd, cwd=cdir, env=env, capture_output=True, text=True, preexec_fn=limit)
            out = p.stdout + "\n" + p.stderr
            if log:
                with open(log, "w") as f:
                    f.write("$ " + " ".join(cmd) + "\n" + out)
            res = parse_kani_output(out)
            meta = {"cmd": " ".join(cmd), "rc": p.returncode, "wall_s": time.time() - t0, "injected": injected}
            missing = [h for h in harnesses if h.split("::")[-1] not in res]
            if missing:
                # compile error or harness not found
                tail = out[-3000:]
                raise KaniToolFailure("cargo kani produced no result for %s (rc=%s): %s" % (missing, p.returncode, tail))
            return res, meta
        finally:
            if not keep:
                shutil.rmtree(SCRATCH, ignore_errors=True)


def run_playback(repo, crate, harness, test_src, log=None, quiet=False):
    """Replay a Kani counterexample (concrete playback unit test) against the real crate.
    Returns True when the test fails as predicted (the violation reproduces on real code)."""
    os.makedirs(os.path.dirname(LOCK), exist_ok=True)
    m = re.search(r"fn (kani_concrete_playback_\w+)", test_src)
    if not m:
        raise KaniToolFailure("no playback test in replay file")
    tname = m.group(1)
    short = harness.split("::")[-1]
    hfile = None
    for c, rel, hp in harness_files():
        if c == crate and re.search(r"\bfn %s\b" % re.escape(short), open(hp).read()):
            hfile, hrel = hp, rel
    if not hfile:
        raise KaniToolFailure("harness %s not found under kani/%s" % (short, crate))
    with open(LOCK, "w") as lk:
        fcntl.flock(lk, fcntl.LOCK_EX)
        dst, _ = prepare_scratch(repo, only_crates=[crate])
        try:
            pb = os.path.join(SCRATCH, "playback_module.rs")
            with open(pb, "w") as f:
                f.write(open(hfile).read() + "\n" + test_src + "\n")
            target = os.path.join(dst, crate, hrel)
            txt = open(target).read().replace('#[path = "%s"]' % hfile, '#[path = "%s"]' % pb)
            open(target, "w").write(txt)
            env = dict(os.environ, CARGO_NET_OFFLINE="true", CARGO_TARGET_DIR=CACHE + "-playback")
            cmd = ["cargo", "kani", "playback", "-Z", "concrete-playback", "--lib", "--", tname]
            p = subprocess.run(cmd, cwd=os.path.join(dst, crate), env=env, capture_output=True, text=True)
            out = p.stdout + "\n" + p.stderr
            if log:
                open(log, "w").write(out)
            if not quiet:
                print("\n".join(l for l in out.split("\n") if re.search(r"panicked|test result|^test |running", l))[-2500:])
            failed = bool(re.search(r"test result: FAILED|panicked at", out))
            ran = bool(re.search(r"running 1 test", out))
            if not ran:
                raise KaniToolFailure("playback test did not run: %s" % out[-1500:])
            return failed
        finally:
            shutil.rmtree(SCRATCH, ignore_errors=True)
