"""Expand a Verus unit template (`specs/<unit>.vt.rs`) into one Verus input file.

Template = ordinary Verus text (spec functions, lemmas, assumed environment) plus
directives that pull the REAL item text out of /repo on every run:

  //@ item <relpath> | [<container> |] <kind> <name>
        copy a struct/enum/type/const/fn/impl verbatim (cleaned by extract.clean_item)
  //@ fn <relpath> | [<container> |] <name>
  //@   ret <ident>                      name the result:  -> (ident: T)
  //@   attr <attribute text>            e.g. #[verifier::loop_isolation(false)]
  //@   spec                             following raw lines: requires/ensures/decreases
  //@   loop <n> [iter <ident>]          following raw lines: invariant/decreases of n-th loop
  //@   before /<regex>/                 following raw lines inserted before the single
  //@   after /<regex>/                  body line matching regex (after: behind that line)
  //@   subst /<regex>/ => <text>        unit-local substitution (counted, reported as trusted)
  //@ end

Only specification text is ever inserted; executable tokens are copied.
"""
import re
import os
from extract import Source, ExtractError, Rules, clean_item, mask, match_close


class Chunk:
    __slots__ = ("text", "tag")

    def __init__(self, text, tag):
        self.text = text
        self.tag = tag


class FnInfo:
    def __init__(self):
        self.name = None
        self.path = None
        self.container = None
        self.repo_line = None
        self.gen_lines = None  # (first,last) in generated file
        self.regions = []  # (first,last,tag)
        self.clauses = {}  # tag -> count of top-level clauses


def split_top_commas(text):
    m, _ = mask(text)
    parts, d, last = [], 0, 0
    for i, ch in enumerate(m):
        if ch in "([{":
            d += 1
        elif ch in ")]}":
            d -= 1
        elif ch == "," and d == 0:
            parts.append(text[last:i])
            last = i + 1
    parts.append(text[last:])
    return [p for p in parts if p.strip()]


def count_clauses(spec_text):
    """Count requires / ensures / invariant / decreases clauses (top-level commas)."""
    m, _ = mask(spec_text)
    res = {}
    kws = list(re.finditer(r"\b(requires|ensures|invariant|invariant_except_break|decreases|returns)\b", m))
    for i, k in enumerate(kws):
        end = kws[i + 1].start() if i + 1 < len(kws) else len(spec_text)
        seg = spec_text[k.end():end]
        res[k.group(1)] = res.get(k.group(1), 0) + len(split_top_commas(seg))
    return res


class Generator:
    def __init__(self, repo_root, template_path, canary="dup", inplace=()):
        """canary: "dup"  -> every extracted fn is emitted twice: as is, and as `<name>__canary`
                           with `ensures false` (must FAIL: shows the precondition is satisfiable
                           and the body is really checked).  Trait-impl methods cannot be duplicated
                           (flagged traitimpl) -> second pass with canary="inplace", inplace={names}.
                   None   -> no canaries."""
        self.repo = repo_root
        self.tpath = template_path
        self.canary = canary
        self.inplace = set(inplace)
        self.included = []
        self.rules = Rules()
        self.sources = {}
        self.fns = []
        self.items = []
        self.chunks = []

    def src(self, rel):
        if rel not in self.sources:
            p = os.path.join(self.repo, rel)
            if not os.path.exists(p):
                raise ExtractError("source file missing: %s" % rel)
            self.sources[rel] = Source(rel, open(p, encoding="utf-8").read())
        return self.sources[rel]

    # ------------------------------------------------------------------
    def generate(self):
        lines = self.read_template(self.tpath, top=True)
        i = 0
        n = len(lines)
        while i < n:
            ln = lines[i]
            s = ln.strip()
            if s.startswith("//@ item "):
                self.emit_item(s[len("//@ item "):])
                i += 1
            elif s.startswith("//@ fn "):
                j = i + 1
                block = []
                while j < n and lines[j].strip() != "//@ end":
                    block.append(lines[j])
                    j += 1
                if j >= n:
                    raise ExtractError("template: //@ fn without //@ end at line %d" % (i + 1))
                self.emit_fn(s[len("//@ fn "):], block)
                i = j + 1
            elif s.startswith("//@"):
                raise ExtractError("template: unknown directive at line %d: %s" % (i + 1, s))
            else:
                self.chunks.append(Chunk(ln + "\n", "template"))
                i += 1
        return self.assemble()

    def read_template(self, path, top=False, seen=()):
        """Template lines with `//@ include <file>` spliced in (the part of <file> between the
        `//@@ body-begin` and `//@@ body-end` markers), recursively; each file at most once."""
        out = []
        raw = open(path, encoding="utf-8").read().split("\n")
        if not top:
            try:
                a = next(i for i, l in enumerate(raw) if l.strip() == "//@@ body-begin")
                b = next(i for i, l in enumerate(raw) if l.strip() == "//@@ body-end")
            except StopIteration:
                raise ExtractError("template %s has no //@@ body-begin / body-end markers" % path)
            raw = raw[a + 1:b]
        for ln in raw:
            st = ln.strip()
            if st.startswith("//@ include "):
                inc = os.path.join(os.path.dirname(self.tpath), st[len("//@ include "):].strip())
                if inc in self.included:
                    continue
                self.included.append(inc)
                out.append("// ======== included from %s ========" % os.path.basename(inc))
                out.extend(self.read_template(inc))
                out.append("// ======== end of %s ========" % os.path.basename(inc))
            elif st in ("//@@ body-begin", "//@@ body-end"):
                continue
            else:
                out.append(ln)
        return out

    def parse_sel(self, sel):
        parts = [p.strip() for p in sel.split("|")]
        rel = parts[0]
        container = None
        if len(parts) == 3:
            container = parts[1]
        last = parts[-1]
        return rel, container, last

    def emit_item(self, sel):
        rel, container, last = self.parse_sel(sel)
        kind, name = last.split(None, 1)
        s = self.src(rel)
        a, b = s.find_item(kind, name.strip(), container)
        text = s.text[a:b]
        text = clean_item(text, self.rules, is_struct=(kind == "struct"))
        self.items.append({"path": rel, "item": last, "container": container, "line": s.line_of(a)})
        self.chunks.append(Chunk(text.rstrip("\n") + "\n", "item:%s" % last))

    def emit_fn(self, sel, block):
        rel, container, name = self.parse_sel(sel)
        s = self.src(rel)
        a, b = s.find_item("fn", name, container)
        raw = s.text[a:b]
        # parse sub-directives
        ret = None
        attrs = []
        spec = []
        loops = {}
        anchors = []
        substs = []
        cur = None
        for ln in block:
            st = ln.strip()
            if st.startswith("//@"):
                d = st[3:].strip()
                if d.startswith("ret "):
                    ret = d[4:].strip()
                    cur = None
                elif d.startswith("attr "):
                    attrs.append(d[5:].strip())
                    cur = None
                elif d == "spec":
                    cur = spec
                elif d.startswith("loop "):
                    m = re.match(r"loop (\d+)(?: iter (\w+))?$", d)
                    if not m:
                        raise ExtractError("template: bad loop directive %r" % d)
                    ent = {"iter": m.group(2), "text": []}
                    loops[int(m.group(1))] = ent
                    cur = ent["text"]
                elif d.startswith("before ") or d.startswith("after "):
                    m = re.match(r"(before|after) /(.*)/$", d)
                    if not m:
                        raise ExtractError("template: bad anchor directive %r" % d)
                    ent = {"where": m.group(1), "rx": m.group(2), "text": []}
                    anchors.append(ent)
                    cur = ent["text"]
                elif d.startswith("subst "):
                    m = re.match(r"subst /(.*)/ => (.*)$", d)
                    if not m:
                        raise ExtractError("template: bad subst directive %r" % d)
                    substs.append(("subst(unit):/%s/=>%s" % (m.group(1), m.group(2)), re.compile(m.group(1)), m.group(2)))
                    cur = None
                else:
                    raise ExtractError("template: unknown fn directive %r" % d)
            else:
                if cur is None:
                    if st:
                        raise ExtractError("template: stray text in fn block for %s: %r" % (name, st))
                else:
                    cur.append(ln)
        text = clean_item(raw, self.rules)
        for sname, rx, rep in substs:
            text, n = rx.subn(rep, text)
            if n == 0:
                # a unit-local substitution is an anchor: if the code no longer has the expression it rewrites, the
                # contract below it no longer describes the code -- undecided (exit 2), never a verdict
                raise ExtractError("anchor lost: %s matched nothing in fn %s (%s)" % (sname, name, rel))
            self.rules.hit(sname, n)
        info = FnInfo()
        info.name, info.path, info.container = name, rel, container
        info.repo_line = s.line_of(s.masked.find("fn", a))
        info.traitimpl = bool(container and re.search(r"\bfor\b", container))
        info.canary = False
        inplace = self.canary == "inplace" and name in self.inplace
        chunks = self.weave(text, name, ret, attrs, spec, loops, anchors, info, canary=inplace)
        info.canary = inplace
        info.chunk_start = len(self.chunks)
        self.chunks.extend(chunks)
        info.chunk_end = len(self.chunks)
        self.fns.append(info)
        if self.canary == "dup" and not info.traitimpl:
            c = FnInfo()
            c.name, c.path, c.container = name + "__canary", rel, container
            c.repo_line = info.repo_line
            c.traitimpl = False
            c.canary = True
            c.of = name
            cch = self.weave(text, name, ret, attrs, spec, loops, anchors, c, canary=True, rename=name + "__canary")
            c.chunk_start = len(self.chunks)
            self.chunks.extend(cch)
            c.chunk_end = len(self.chunks)
            self.fns.append(c)

    # ------------------------------------------------------------------
    def weave(self, text, name, ret, attrs, spec, loops, anchors, info, canary=False, rename=None):
        m, _ = mask(text)
        fm = re.search(r"\bfn\s+%s\b" % re.escape(name), m)
        if not fm:
            raise ExtractError("fn %s: keyword lost after cleaning" % name)
        if rename:
            text = text[:fm.start()] + "fn " + rename + text[fm.end():]
            name = rename
            m, _ = mask(text)
            fm = re.search(r"\bfn\s+%s\b" % re.escape(name), m)
        # parameter list
        k = m.index("(", fm.end())
        # generics may contain parens e.g. Fn(u8) -- find the `(` at angle depth 0
        k = fm.end()
        ang = 0
        while k < len(m):
            ch = m[k]
            if ch == "<":
                ang += 1
            elif ch == ">" and m[k - 1] != "-":
                ang -= 1
            elif ch == "(" and ang == 0:
                break
            k += 1
        pclose = match_close(m, k)
        # body open: first `{` at bracket depth 0 after params
        j = pclose + 1
        d = 0
        while j < len(m):
            ch = m[j]
            if ch in "([":
                d += 1
            elif ch in ")]":
                d -= 1
            elif ch == "{" and d == 0:
                break
            j += 1
        body_open = j
        body_close = match_close(m, body_open)
        sig_tail = text[pclose + 1:body_open]
        sig_tail_m = m[pclose + 1:body_open]
        inserts = []  # (offset, text, tag)
        if ret is not None:
            am = re.match(r"\s*->\s*", sig_tail_m)
            if not am:
                raise ExtractError("fn %s: `ret` given but no return type" % name)
            wm = re.search(r"\bwhere\b", sig_tail_m)
            tend = wm.start() if wm else len(sig_tail_m)
            ty = sig_tail[am.end():tend].rstrip()
            base = pclose + 1
            inserts.append((base + am.end(), "(%s: " % ret, "sig"))
            inserts.append((base + am.end() + len(ty), ")", "sig"))
        spec_text = "\n".join(spec)
        if canary:
            sm, _ = mask(spec_text)
            em = re.search(r"\bensures\b", sm)
            if em:
                spec_text = spec_text[:em.end()] + " false," + spec_text[em.end():]
            else:
                dm = re.search(r"\bdecreases\b", sm)
                if dm:
                    spec_text = spec_text[:dm.start()] + " ensures false,\n" + spec_text[dm.start():]
                else:
                    spec_text = spec_text + "\n    ensures false,"
        if spec_text.strip():
            inserts.append((body_open, "\n" + spec_text.rstrip() + "\n", "spec"))
            info.clauses["spec"] = count_clauses(spec_text)
        # loops
        body_m = m[body_open:body_close + 1]
        loop_pos = []
        for lm in re.finditer(r"\b(for|while|loop)\b", body_m):
            off = body_open + lm.start()
            # skip `for<'a>` HRTB and `impl .. for` (not expected in bodies)
            after = m[off + len(lm.group(1)):off + len(lm.group(1)) + 1]
            if lm.group(1) == "for" and after == "<":
                continue
            # find the `{` of the loop body
            q = off
            dd = 0
            while q < len(m):
                ch = m[q]
                if ch in "([":
                    dd += 1
                elif ch in ")]":
                    dd -= 1
                elif ch == "{" and dd == 0:
                    break
                q += 1
            loop_pos.append((lm.group(1), off, q))
        for idx, ent in loops.items():
            if idx < 1 or idx > len(loop_pos):
                raise ExtractError("fn %s: loop ordinal %d not found (function has %d loops)" % (name, idx, len(loop_pos)))
            kw, off, ob = loop_pos[idx - 1]
            if ent["iter"]:
                if kw != "for":
                    raise ExtractError("fn %s: loop %d is not a for loop" % (name, idx))
                im = re.search(r"\bin\b", m[off:ob])
                if not im:
                    raise ExtractError("fn %s: loop %d: `in` not found" % (name, idx))
                inserts.append((off + im.end(), " %s:" % ent["iter"], "loop%d" % idx))
            ltxt = "\n".join(ent["text"])
            inserts.append((ob, "\n" + ltxt.rstrip() + "\n", "loop%d" % idx))
            info.clauses["loop%d" % idx] = count_clauses(ltxt)
        info.nloops = len(loop_pos)
        if len(loops) and False:
            pass
        # anchors (line-based on body text)
        line_starts = [0]
        for mm in re.finditer(r"\n", text):
            line_starts.append(mm.end())
        for ent in anchors:
            rx = re.compile(ent["rx"])
            hits = []
            for li, ls in enumerate(line_starts):
                le = text.find("\n", ls)
                if le < 0:
                    le = len(text)
                if ls <= body_open or le >= body_close:
                    continue
                if rx.search(text[ls:le]):
                    hits.append((ls, le))
            if len(hits) != 1:
                raise ExtractError("fn %s: anchor /%s/ matches %d lines (need exactly 1)" % (name, ent["rx"], len(hits)))
            ls, le = hits[0]
            atxt = "\n".join(ent["text"]).rstrip() + "\n"
            if ent["where"] == "before":
                inserts.append((ls, atxt, "proof@/%s/" % ent["rx"]))
            else:
                inserts.append((le + 1, atxt, "proof@/%s/" % ent["rx"]))
        # attrs go in front of the item text
        chunks = []
        for a in attrs:
            chunks.append(Chunk(a + "\n", "attr"))
        inserts.sort(key=lambda t: t[0])
        pos = 0
        for off, txt, tag in inserts:
            if off > pos:
                chunks.append(Chunk(text[pos:off], "code"))
                pos = off
            chunks.append(Chunk(txt, tag))
        chunks.append(Chunk(text[pos:].rstrip("\n") + "\n", "code"))
        return chunks

    # ------------------------------------------------------------------
    def assemble(self):
        out = []
        line = 1
        fn_by_chunk = {}
        for f in self.fns:
            for c in range(f.chunk_start, f.chunk_end):
                fn_by_chunk[c] = f
        for idx, ch in enumerate(self.chunks):
            nl = ch.text.count("\n")
            f = fn_by_chunk.get(idx)
            if f is not None:
                first = line
                last = line + nl if not ch.text.endswith("\n") else line + nl - 1
                if f.gen_lines is None:
                    f.gen_lines = [first, last]
                else:
                    f.gen_lines[1] = max(f.gen_lines[1], last)
                f.regions.append((first, max(first, last), ch.tag))
            out.append(ch.text)
            line += nl
        return "".join(out)

    def locate(self, line):
        """Map a generated-file line to (FnInfo or None, tag)."""
        for f in self.fns:
            if f.gen_lines and f.gen_lines[0] <= line <= f.gen_lines[1]:
                tag = "code"
                for a, b, t in f.regions:
                    if a <= line <= b:
                        tag = t
                        if t != "code":
                            break
                return f, tag
        return None, "template"
