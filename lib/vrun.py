"""Run Verus on a generated unit file and classify the outcome per function."""
import json
import os
import re
import subprocess
import time

from vgen import Generator
from extract import ExtractError

VERUS = "verus"

# message classes that are *semantic* obligation failures (may become VIOLATION)
SEMANTIC = [
    "postcondition not satisfied",
    "precondition not satisfied",
    "invariant not satisfied",
    "assertion failed",
    "possible arithmetic underflow/overflow",
    "possible division by zero",
    "possible bit shift underflow/overflow",
    "index out of bounds",
    "recommendation not met",
    "unreachable",
    "possible panic",
    "decreases not satisfied",
    "loop invariant not preserved",
    "unwrap",
    "failed this",
    "cannot show",
    "might fail",
    "constructed value may fail to meet",
]
TOOLFAIL = ["rlimit", "resource limit", "timed out", "not supported", "unsupported", "is not supported", "internal error", "panicked"]


class ToolFailure(Exception):
    pass


def trusted_scan(text):
    """Mechanical scan of the generated Verus file for everything that is assumed."""
    found = []
    lines = text.split("\n")
    for i, ln in enumerate(lines):
        s = ln.strip()
        if s.startswith("//"):
            continue
        for kw in ("external_body", "assume_specification", "external_type_specification",
                   "external_trait_specification", "external_fn_specification", "admit(", "assume(", "uninterp spec fn",
                   "verifier::external", "#[verifier::exec_allows_no_decreases_clause]"):
            if kw in s:
                # find the name on this or the following lines
                name = None
                for j in range(i, min(i + 4, len(lines))):
                    m = re.search(r"\b(fn|struct|trait|enum)\s+(\w+)", lines[j])
                    if m:
                        name = m.group(2)
                        break
                    m = re.search(r"assume_specification(?:<[^\[]*>)?\s*\[\s*([^\]]+)\]", lines[j])
                    if m:
                        name = m.group(1).strip()
                        break
                found.append("%s: %s" % (kw.strip("(#[]"), name or s[:60]))
                break
    # dedupe keeping order
    seen, out = set(), []
    for f in found:
        if f not in seen:
            seen.add(f)
            out.append(f)
    return out


def run_verus(repo, template, workdir, canary="dup", inplace=(), rlimit=None, extra_args=()):
    """Returns dict: generated path, fn results, errors, counts.  Raises ToolFailure."""
    os.makedirs(workdir, exist_ok=True)
    unit = os.path.basename(template).replace(".vt.rs", "")
    gen = Generator(repo, template, canary=canary, inplace=inplace)
    try:
        text = gen.generate()
    except ExtractError as e:
        raise ToolFailure("extraction: %s" % e)
    gpath = os.path.join(workdir, unit + ("_inplace" if canary == "inplace" else "") + ".rs")
    with open(gpath, "w") as f:
        f.write(text)
    cmd = [VERUS, gpath, "--output-json", "--time", "--multiple-errors", "20", "--error-format=json"]
    if rlimit:
        cmd += ["--rlimit", str(rlimit)]
    cmd += list(extra_args)
    # Result memo: the generated file contains every extracted token and every specification, so identical text (and
    # identical flags) is the identical verification problem.  Runs that hit a resource limit are never stored; VERIF_NO_CACHE=1
    # disables it.  (Several properties share units: without this a full run re-verifies them once per property.)
    import hashlib
    key = hashlib.sha256(("\0".join(cmd[2:]) + "\0" + text).encode()).hexdigest()[:32]
    cdir = os.path.join(os.path.dirname(os.path.dirname(os.path.abspath(__file__))), ".cache", "vres")
    cpath = os.path.join(cdir, "%s_%s.json" % (unit, key))
    memo = None
    if os.environ.get("VERIF_NO_CACHE") != "1" and os.path.exists(cpath):
        try:
            memo = json.load(open(cpath))
        except Exception:
            memo = None

    class _P:
        pass
    if memo:
        p = _P()
        p.stdout, p.stderr, p.returncode = memo["stdout"], memo["stderr"], memo["rc"]
        wall = memo["wall"]
    else:
        t0 = time.time()
        p = subprocess.run(cmd, capture_output=True, text=True, cwd=workdir)
        wall = time.time() - t0
        try:
            vr0 = json.loads(p.stdout).get("verification-results", {})
            # the main pass always carries the deliberate `ensures false` canary failures, so "has errors" is normal;
            # what is never stored is a run that hit a resource limit or produced no per-function results
            if vr0 and "esource limit" not in p.stderr and "rlimit" not in p.stderr and "timed out" not in p.stderr:
                os.makedirs(cdir, exist_ok=True)
                json.dump({"stdout": p.stdout, "stderr": p.stderr, "rc": p.returncode, "wall": wall}, open(cpath, "w"))
        except Exception:
            pass
    try:
        js = json.loads(p.stdout)
    except Exception:
        raise ToolFailure("verus produced no JSON (rc=%s): %s" % (p.returncode, (p.stderr or p.stdout)[-2000:]))
    vr = js.get("verification-results", {})
    diags = []
    for ln in p.stderr.split("\n"):
        ln = ln.strip()
        if not ln.startswith("{"):
            continue
        try:
            d = json.loads(ln)
        except Exception:
            continue
        if d.get("level") in ("error", "warning") and d.get("message"):
            diags.append(d)
    errors = []
    for d in diags:
        if d["level"] != "error":
            continue
        msg = d["message"]
        if msg.startswith("aborting due to"):
            continue
        spans = d.get("spans", [])
        prim = [s for s in spans if s.get("is_primary")]
        sec = [s for s in spans if not s.get("is_primary")]
        base = os.path.basename(gpath)
        own = lambda sp: os.path.basename(sp.get("file_name", "")) == base
        pl = prim[0]["line_start"] if prim and own(prim[0]) else None
        if pl is None:
            # the violated clause lives in vstd (e.g. a trait spec): attribute the error to the place in
            # OUR file that the diagnostic points at ("at this exit", "at this call")
            alt = [sp for sp in sec if own(sp)]
            if alt:
                pl = alt[0]["line_start"]
        if pl is None:
            # e.g. a panic inside a std macro (`todo!()`, `assert!`): every span is in core; the rendered diagnostic still
            # shows the expansion site in our file ("in this macro invocation")
            mm = re.search(re.escape(base) + r":(\d+):", d.get("rendered", ""))
            if mm:
                pl = int(mm.group(1))
        f, tag = gen.locate(pl) if pl else (None, "template")
        ent = {
            "message": msg,
            "line": pl,
            "fn": f.name if f else None,
            "canary": bool(f and f.canary),
            "tag": tag,
            "text": ((prim[0]["text"][0]["text"].strip() if prim and own(prim[0]) and prim[0].get("text") else "")
                     or (text.split("\n")[pl - 1].strip() if pl and 0 < pl <= text.count("\n") + 1 else "")),
            "secondary": [],
            "rendered": d.get("rendered", "")[:1500],
        }
        for s in sec:
            if not own(s):
                ent["secondary"].append({"line": None, "fn": None, "tag": "vstd", "label": s.get("label"), "text": "%s:%s" % (s.get("file_name"), s.get("line_start"))})
                continue
            sf, stag = gen.locate(s["line_start"])
            ent["secondary"].append({
                "line": s["line_start"], "fn": sf.name if sf else None, "tag": stag,
                "label": s.get("label"), "text": s["text"][0]["text"].strip() if s.get("text") else ""})
        errors.append(ent)
    if vr.get("encountered-vir-error") or not vr or (not vr.get("success") and not vr.get("errors")):
        raise ToolFailure("verus front-end error: %s" % (json.dumps([d["message"] for d in diags if d["level"] == "error"])[:3000] or p.stderr[-2000:]))
    # classify
    for e in errors:
        m = e["message"].lower()
        if any(t in m for t in TOOLFAIL):
            e["class"] = "tool"
        else:
            e["class"] = "semantic"
    # per function breakdown
    funcs = {}
    smt = js.get("times-ms", {}).get("smt", {})
    for mod in smt.get("smt-run-module-times", []):
        for fb in mod.get("function-breakdown", []):
            nm = fb["function"].split("::", 1)[1] if "::" in fb["function"] else fb["function"]
            funcs[nm] = {"mode": fb.get("mode:"), "ms": fb.get("time-micros", 0) / 1000.0, "rlimit": fb.get("rlimit"), "success": fb.get("success")}
    canary_fns = [f for f in gen.fns if f.canary]
    hit = set(e["fn"] for e in errors if e["canary"])
    canary_missing = [f.name for f in canary_fns if f.name not in hit]
    failures = [e for e in errors if not e["canary"]]
    return {
        "canary_total": len(canary_fns),
        "canary_missing": canary_missing,
        "failures": failures,
        "traitimpl_fns": [f.name for f in gen.fns if f.traitimpl],
        "unit": unit,
        "generated": gpath,
        "gen": gen,
        "text": text,
        "verified": vr.get("verified", 0),
        "errors_n": vr.get("errors", 0),
        "success": bool(vr.get("success")),
        "errors": errors,
        "funcs": funcs,
        "wall_s": wall,
        "smt_ms": smt.get("total", 0),
        "cmd": " ".join(cmd) + ("   [result served from the memo of an earlier run on byte-identical generated text]" if memo else ""),
        "memoised": bool(memo),
        "trusted": trusted_scan(text),
        "extraction": dict(gen.rules.counts),
    }
