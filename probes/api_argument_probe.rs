use automerge::transaction::Transactable;
use automerge::{
    marks::{ExpandMark, Mark},
    AutoCommit, ObjType, ReadDoc, ROOT,
};
use std::panic::{catch_unwind, AssertUnwindSafe};

fn report(name: &str, r: std::thread::Result<()>) {
    eprintln!("PROBE {name}: {}", if r.is_err() { "PANIC" } else { "ok" });
}

#[test]
fn probes() {
    // 1. splice with isize::MIN at a huge index
    report(
        "splice_isize_min",
        catch_unwind(AssertUnwindSafe(|| {
            let mut d = AutoCommit::new();
            let l = d.put_object(ROOT, "l", ObjType::List).unwrap();
            let _ = d.splice(
                &l,
                usize::MAX,
                isize::MIN,
                Vec::<automerge::ScalarValue>::new(),
            );
        })),
    );
    // 2. cursor of another object
    report(
        "cursor_other_obj",
        catch_unwind(AssertUnwindSafe(|| {
            let mut d = AutoCommit::new();
            let a = d.put_object(ROOT, "a", ObjType::Text).unwrap();
            let b = d.put_object(ROOT, "b", ObjType::Text).unwrap();
            d.splice_text(&a, 0, 0, "hello").unwrap();
            d.splice_text(&b, 0, 0, "world").unwrap();
            let c = d.get_cursor(&b, 2, None).unwrap();
            let _ = d.get_cursor_position(&a, &c, None);
        })),
    );
    // 3. parents_at for an object appended after heads
    report(
        "parents_at_later_obj",
        catch_unwind(AssertUnwindSafe(|| {
            let mut d = AutoCommit::new();
            let l = d.put_object(ROOT, "l", ObjType::List).unwrap();
            d.commit();
            let heads = d.get_heads();
            let o = d.insert_object(&l, 0, ObjType::Map).unwrap();
            d.commit();
            if let Ok(p) = d.parents_at(&o, &heads) {
                let _ = p.count();
            }
        })),
    );
    // 4. mark beyond the end
    report(
        "mark_beyond_len",
        catch_unwind(AssertUnwindSafe(|| {
            let mut d = AutoCommit::new();
            let t = d.put_object(ROOT, "t", ObjType::Text).unwrap();
            d.splice_text(&t, 0, 0, "abc").unwrap();
            let _ = d.mark(&t, Mark::new("bold".into(), true, 1, 10), ExpandMark::Both);
            d.commit();
            let _ = d.marks(&t);
            let s = d.save();
            let _ = automerge::Automerge::load(&s);
        })),
    );
}
