use automerge::transaction::Transactable;
use automerge::{ActorId, AutoCommit, Automerge, Change, ObjType, ROOT, marks::{Mark, ExpandMark}};
use sha2::{Digest, Sha256};
fn read_uleb(b: &[u8], pos: &mut usize) -> u64 { let mut res = 0u64; let mut shift = 0; loop { let byte = b[*pos]; *pos += 1; res |= ((byte & 0x7f) as u64) << shift; shift += 7; if byte & 0x80 == 0 { return res; } } }
fn write_uleb(out: &mut Vec<u8>, mut v: u64) { loop { let mut byte = (v & 0x7f) as u8; v >>= 7; if v != 0 { byte |= 0x80; } out.push(byte); if v == 0 { break; } } }
fn fix_checksum(chunk: &mut [u8]) { let typ = chunk[8]; let mut pos = 9; let len = read_uleb(chunk, &mut pos) as usize; assert_eq!(pos + len, chunk.len()); let mut hashed = vec![typ]; write_uleb(&mut hashed, len as u64); hashed.extend_from_slice(&chunk[pos..pos + len]); let d = Sha256::digest(&hashed); chunk[4..8].copy_from_slice(&d[..4]); }
#[test]
fn byte_mutations_of_a_change_never_panic() {
    let mut doc = AutoCommit::new().with_actor(ActorId::from([3u8; 16]));
    let l = doc.put_object(ROOT, "list", ObjType::List).unwrap();
    doc.insert(&l, 0, 1).unwrap(); doc.insert(&l, 1, "two").unwrap(); doc.insert(&l, 2, 3.5).unwrap();
    let t = doc.put_object(ROOT, "text", ObjType::Text).unwrap();
    doc.splice_text(&t, 0, 0, "hello").unwrap();
    doc.mark(&t, Mark::new("bold".into(), true, 0, 3), ExpandMark::Both).unwrap();
    doc.put(ROOT, "c", automerge::ScalarValue::counter(5)).unwrap();
    doc.delete(&l, 0).unwrap();
    doc.commit();
    let orig = doc.get_last_local_change().unwrap().raw_bytes().to_vec();
    Change::from_bytes(orig.clone()).unwrap();
    let mut p0 = 9; let _ = read_uleb(&orig, &mut p0);
    let mut sites = std::collections::BTreeSet::new();
    let mut n = 0;
    for pos in p0..orig.len() {
        for v in 0u8..=255 {
            if orig[pos] == v { continue; }
            let mut b = orig.clone(); b[pos] = v; fix_checksum(&mut b);
            let r = std::panic::catch_unwind(|| {
                if let Ok(c) = Change::from_bytes(b.clone()) { let _ = c.decode(); let _ = c.max_op(); let mut d = Automerge::new(); let _ = d.apply_changes([c]); let _ = d.save(); }
                let mut d = Automerge::new(); let _ = d.load_incremental(&b);
            });
            if r.is_err() { n += 1; sites.insert(pos); }
        }
    }
    eprintln!("CHANGE PANICS: {n} at byte positions {:?} (len {})", sites, orig.len());
    assert_eq!(n, 0);
}
