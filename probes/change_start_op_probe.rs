use automerge::transaction::Transactable;
use automerge::{ActorId, AutoCommit, Automerge, Change, ROOT};
use sha2::{Digest, Sha256};
fn read_uleb(b: &[u8], pos: &mut usize) -> u64 {
    let mut res = 0u64;
    let mut shift = 0;
    loop {
        let byte = b[*pos];
        *pos += 1;
        res |= ((byte & 0x7f) as u64) << shift;
        shift += 7;
        if byte & 0x80 == 0 {
            return res;
        }
    }
}
fn write_uleb(out: &mut Vec<u8>, mut v: u64) {
    loop {
        let mut byte = (v & 0x7f) as u8;
        v >>= 7;
        if v != 0 {
            byte |= 0x80;
        }
        out.push(byte);
        if v == 0 {
            break;
        }
    }
}
fn with_start_op(ch: &[u8], start_op: u64) -> Vec<u8> {
    let mut pos = 9;
    let _len = read_uleb(ch, &mut pos);
    let body_start = pos;
    let ndeps = read_uleb(ch, &mut pos) as usize;
    pos += 32 * ndeps;
    let al = read_uleb(ch, &mut pos) as usize;
    pos += al;
    let _seq = read_uleb(ch, &mut pos);
    let so_start = pos;
    let _so = read_uleb(ch, &mut pos);
    let so_end = pos;
    let mut body = ch[body_start..so_start].to_vec();
    write_uleb(&mut body, start_op);
    body.extend_from_slice(&ch[so_end..]);
    let mut out = vec![0x85, 0x6f, 0x4a, 0x83, 0, 0, 0, 0, 1];
    write_uleb(&mut out, body.len() as u64);
    out.extend_from_slice(&body);
    let mut hashed = vec![1u8];
    write_uleb(&mut hashed, body.len() as u64);
    hashed.extend_from_slice(&body);
    let d = Sha256::digest(&hashed);
    out[4..8].copy_from_slice(&d[..4]);
    out
}
#[test]
fn huge_start_op() {
    let mut doc = AutoCommit::new().with_actor(ActorId::from([3u8; 16]));
    doc.put(ROOT, "k1", "ab").unwrap();
    doc.put(ROOT, "k2", "cd").unwrap();
    doc.commit();
    let bytes = doc.get_last_local_change().unwrap().raw_bytes().to_vec();
    for so in [
        u64::MAX,
        u64::MAX - 1,
        (u32::MAX as u64),
        (u32::MAX as u64) + 1,
        1u64 << 40,
    ] {
        let b = with_start_op(&bytes, so);
        let r = std::panic::catch_unwind(|| {
            let c = Change::from_bytes(b.clone());
            c.map(|c| {
                let _ = c.max_op();
                let _ = c.decode();
            })
            .map_err(|e| e.to_string())
        });
        eprintln!(
            "PROBE start_op={so} from_bytes: {:?}",
            r.map_err(|_| "PANIC")
        );
        let r2 = std::panic::catch_unwind(|| {
            let mut d = Automerge::new();
            d.load_incremental(&b)
                .map(|_| ())
                .map_err(|e| e.to_string())
        });
        eprintln!(
            "PROBE start_op={so} load_incremental: {:?}",
            r2.map_err(|_| "PANIC")
        );
        let r3 = std::panic::catch_unwind(|| {
            let mut d = Automerge::new();
            if let Ok(c) = Change::from_bytes(b.clone()) {
                let _ = d.apply_changes([c]);
                let _ = d.get_heads();
                let _ = d.save();
            }
        });
        eprintln!(
            "PROBE start_op={so} apply: {}",
            if r3.is_err() { "PANIC" } else { "ok" }
        );
    }
}
