use automerge::{AutoCommit, ReadDoc, ROOT, ScalarValue, transaction::Transactable};
#[test]
fn counter_overflow() {
    let r = std::panic::catch_unwind(|| {
        let mut d = AutoCommit::new();
        d.put(ROOT, "c", ScalarValue::counter(i64::MAX)).unwrap();
        d.increment(ROOT, "c", 1).unwrap();
        d.commit();
        let v = d.get(ROOT, "c").unwrap();
        eprintln!("value: {:?}", v.map(|x| x.0.to_string()));
        let s = d.save();
        let d2 = AutoCommit::load(&s).unwrap();
        let _ = d2.get(ROOT, "c");
        let mut h = d.hydrate(&ROOT, None).unwrap();
        eprintln!("hydrated ok");
        let _ = h;
    });
    eprintln!("PROBE counter_overflow: {}", if r.is_err() { "PANIC" } else { "ok" });
}
