use automerge::transaction::Transactable;
use automerge::{ActorId, Automerge, ROOT};
use sha2::{Digest, Sha256};

fn read_uleb(b: &[u8], pos: &mut usize) -> u64 {
    let mut res = 0u64;
    let mut shift = 0;
    loop {
        let byte = b[*pos];
        *pos += 1;
        res |= ((byte & 0x7f) as u64) << shift;
        shift += 7;
        if byte & 0x80 == 0 {
            return res;
        }
    }
}
fn write_uleb(out: &mut Vec<u8>, mut v: u64) {
    loop {
        let mut byte = (v & 0x7f) as u8;
        v >>= 7;
        if v != 0 {
            byte |= 0x80;
        }
        out.push(byte);
        if v == 0 {
            break;
        }
    }
}
fn fix_checksum(chunk: &mut [u8]) {
    let typ = chunk[8];
    let mut pos = 9;
    let len = read_uleb(chunk, &mut pos) as usize;
    assert_eq!(pos + len, chunk.len());
    let mut hashed = vec![typ];
    write_uleb(&mut hashed, len as u64);
    hashed.extend_from_slice(&chunk[pos..pos + len]);
    let digest = Sha256::digest(&hashed);
    chunk[4..8].copy_from_slice(&digest[..4]);
}
fn change_column(doc: &[u8], wanted_spec: u32) -> std::ops::Range<usize> {
    let mut pos = 9;
    let _chunk_len = read_uleb(doc, &mut pos);
    let n_actors = read_uleb(doc, &mut pos);
    for _ in 0..n_actors {
        let l = read_uleb(doc, &mut pos) as usize;
        pos += l;
    }
    let n_heads = read_uleb(doc, &mut pos) as usize;
    pos += 32 * n_heads;
    let read_meta = |pos: &mut usize| {
        let n = read_uleb(doc, pos);
        (0..n)
            .map(|_| {
                let spec = read_uleb(doc, pos) as u32;
                let len = read_uleb(doc, pos) as usize;
                (spec, len)
            })
            .collect::<Vec<_>>()
    };
    let change_meta = read_meta(&mut pos);
    let _ops_meta = read_meta(&mut pos);
    for (spec, len) in change_meta {
        if spec == wanted_spec {
            return pos..pos + len;
        }
        pos += len;
    }
    panic!("column {wanted_spec} not found");
}
fn two_change_doc() -> Vec<u8> {
    let mut doc = Automerge::new().with_actor(ActorId::from([1u8; 16]));
    let mut tx = doc.transaction();
    tx.put(ROOT, "a", 1).unwrap();
    tx.commit();
    let mut tx = doc.transaction();
    tx.put(ROOT, "b", 2).unwrap();
    tx.commit();
    let bytes = doc.save();
    Automerge::load(&bytes).unwrap();
    bytes
}
#[test]
fn dep_index_out_of_range() {
    let mut bytes = two_change_doc();
    let col = change_column(&bytes, 67);
    eprintln!("deps_val column = {:?}", &bytes[col.clone()]);
    let last = col.end - 1;
    bytes[last] = 5;
    fix_checksum(&mut bytes);
    let r = std::panic::catch_unwind(|| Automerge::load(&bytes).map(|_| ()));
    eprintln!(
        "dep index 5: {:?}",
        r.as_ref().map(|x| x.as_ref().map_err(|e| e.to_string()))
    );
    assert!(r.is_ok(), "load panicked");
}
#[test]
fn deps_count_longer_than_changes() {
    let mut bytes = two_change_doc();
    let col = change_column(&bytes, 64);
    eprintln!("deps_count column = {:?}", &bytes[col.clone()]);
}

fn three_actor_doc() -> Vec<u8> {
    let mut doc = Automerge::new().with_actor(ActorId::from([1u8; 16]));
    let mut tx = doc.transaction();
    tx.put(ROOT, "a", 1).unwrap();
    tx.commit();
    for i in 1..3u8 {
        let mut other = doc.fork().with_actor(ActorId::from([i + 1; 16]));
        let mut tx = other.transaction();
        tx.put(ROOT, format!("k{i}"), "hello").unwrap();
        tx.commit_with(automerge::transaction::CommitOptions::default().with_message("msg"));
        doc.merge(&mut other).unwrap();
    }
    let mut tx = doc.transaction();
    tx.put(ROOT, "b", 2).unwrap();
    tx.commit();
    doc.save()
}

#[test]
fn byte_mutations_of_change_columns_never_panic() {
    let orig = three_actor_doc();
    Automerge::load(&orig).unwrap();
    let mut panics = vec![];
    for spec in [1u32, 3, 19, 35, 53, 64, 67, 86, 87] {
        let col = match std::panic::catch_unwind(|| change_column(&orig, spec)) {
            Ok(c) => c,
            Err(_) => continue,
        };
        for pos in col.clone() {
            for v in 0u8..=255 {
                let mut b = orig.clone();
                if b[pos] == v {
                    continue;
                }
                b[pos] = v;
                fix_checksum(&mut b);
                let r = std::panic::catch_unwind(|| {
                    let _ = Automerge::load(&b);
                    let _ = Automerge::load_unverified_heads(&b);
                });
                if r.is_err() {
                    panics.push((spec, pos - col.start, v));
                }
            }
        }
    }
    eprintln!("PANICS: {:?}", panics);
    assert!(panics.is_empty());
}

fn all_columns(doc: &[u8]) -> Vec<(bool, u32, std::ops::Range<usize>)> {
    let mut pos = 9;
    let _chunk_len = read_uleb(doc, &mut pos);
    let n_actors = read_uleb(doc, &mut pos);
    for _ in 0..n_actors {
        let l = read_uleb(doc, &mut pos) as usize;
        pos += l;
    }
    let n_heads = read_uleb(doc, &mut pos) as usize;
    pos += 32 * n_heads;
    let read_meta = |pos: &mut usize| {
        let n = read_uleb(doc, pos);
        (0..n)
            .map(|_| {
                let spec = read_uleb(doc, pos) as u32;
                let len = read_uleb(doc, pos) as usize;
                (spec, len)
            })
            .collect::<Vec<_>>()
    };
    let change_meta = read_meta(&mut pos);
    let ops_meta = read_meta(&mut pos);
    let mut out = vec![];
    for (spec, len) in change_meta {
        out.push((true, spec, pos..pos + len));
        pos += len;
    }
    for (spec, len) in ops_meta {
        out.push((false, spec, pos..pos + len));
        pos += len;
    }
    out
}

fn rich_doc() -> Vec<u8> {
    use automerge::{transaction::Transactable, ObjType};
    let mut doc = Automerge::new().with_actor(ActorId::from([1u8; 16]));
    let mut tx = doc.transaction();
    let l = tx.put_object(ROOT, "list", ObjType::List).unwrap();
    tx.insert(&l, 0, 1).unwrap();
    tx.insert(&l, 1, "two").unwrap();
    tx.insert(&l, 2, 3.5).unwrap();
    let t = tx.put_object(ROOT, "text", ObjType::Text).unwrap();
    tx.splice_text(&t, 0, 0, "hello world").unwrap();
    tx.mark(
        &t,
        automerge::marks::Mark::new("bold".into(), true, 0, 5),
        automerge::marks::ExpandMark::Both,
    )
    .unwrap();
    tx.put(ROOT, "c", automerge::ScalarValue::counter(5))
        .unwrap();
    tx.commit();
    for i in 1..3u8 {
        let mut other = doc.fork().with_actor(ActorId::from([i + 1; 16]));
        let mut tx = other.transaction();
        tx.put(ROOT, format!("k{i}"), "hello").unwrap();
        tx.increment(ROOT, "c", 2).unwrap();
        tx.delete(&l, 0).unwrap();
        tx.commit();
        doc.merge(&mut other).unwrap();
    }
    doc.save()
}

#[test]
fn byte_mutations_of_all_columns_never_panic() {
    let orig = rich_doc();
    Automerge::load(&orig).unwrap();
    let mut panics = std::collections::BTreeSet::new();
    for (is_change, spec, col) in all_columns(&orig) {
        for pos in col.clone() {
            for v in 0u8..=255 {
                let mut b = orig.clone();
                if b[pos] == v {
                    continue;
                }
                b[pos] = v;
                fix_checksum(&mut b);
                let r = std::panic::catch_unwind(|| {
                    let _ = Automerge::load(&b);
                    let _ = Automerge::load_unverified_heads(&b);
                });
                if r.is_err() {
                    panics.insert((is_change, spec));
                }
            }
        }
    }
    eprintln!("PANICS2: {:?}", panics);
    assert!(panics.is_empty());
}

#[test]
fn byte_mutations_of_a_bundle_never_panic() {
    use automerge::{ObjType, transaction::Transactable};
    let mut doc = Automerge::new().with_actor(ActorId::from([1u8; 16]));
    let mut tx = doc.transaction();
    let l = tx.put_object(ROOT, "list", ObjType::List).unwrap();
    tx.insert(&l, 0, 1).unwrap(); tx.insert(&l, 1, "two").unwrap();
    let t = tx.put_object(ROOT, "text", ObjType::Text).unwrap();
    tx.splice_text(&t, 0, 0, "hello").unwrap();
    tx.put(ROOT, "c", automerge::ScalarValue::counter(5)).unwrap();
    tx.commit();
    for i in 1..3u8 {
        let mut other = doc.fork().with_actor(ActorId::from([i + 1; 16]));
        let mut tx = other.transaction(); tx.put(ROOT, format!("k{i}"), "hello").unwrap(); tx.increment(ROOT, "c", 2).unwrap(); tx.delete(&l, 0).unwrap(); tx.commit();
        doc.merge(&mut other).unwrap();
    }
    let hashes: Vec<_> = doc.get_changes(&[]).iter().map(|c| c.hash()).collect();
    let bundle = doc.bundle(hashes).unwrap();
    let orig = bundle.bytes().to_vec();
    eprintln!("bundle len {}", orig.len());
    {
        let mut d = Automerge::new();
        d.load_incremental(&orig).unwrap();
    }
    let mut pos0 = 9; let _ = read_uleb(&orig, &mut pos0);
    let mut panics = std::collections::BTreeSet::new();
    for pos in pos0..orig.len() {
        for v in 0u8..=255 {
            let mut b = orig.clone();
            if b[pos] == v { continue; }
            b[pos] = v;
            fix_checksum(&mut b);
            let r = std::panic::catch_unwind(|| { let mut d = Automerge::new(); let _ = d.load_incremental(&b); let _ = automerge::Bundle::try_from(&b[..]).map(|bu| { let _ = bu.to_changes(); }); });
            if r.is_err() { panics.insert(pos); }
        }
    }
    eprintln!("BUNDLE PANIC POSITIONS: {:?}", panics);
    assert!(panics.is_empty());
}
