// Probe (temporary integration test; copy to rust/automerge/tests/ to run): a PatchLog that was used with ANOTHER document
// is a caller-supplied argument of `transaction_log_patches`; the API has `PatchLogMismatch` for it.  Before D28
// `PatchLog::migrate_actors` returned Ok when the log's actor table had actors the document does not know
// (it only walked `others.len()` positions), and the commit then hit `debug_assert_eq!(self.actors, doc_actors)`
// in `finish_transaction` (debug) or left a log whose actor indexes do not belong to the document (release).
use automerge::{transaction::Transactable, ActorId, Automerge, PatchLog, ROOT};

#[test]
fn foreign_patch_log_is_a_mismatch_not_a_panic() {
    let mut other = Automerge::new().with_actor(ActorId::from(b"dddddd" as &[u8]));
    let mut pl = PatchLog::active();
    {
        let mut tx = other.transaction_log_patches(pl).unwrap();
        tx.put(ROOT, "x", 1).unwrap();
        let (_, p) = tx.commit();
        pl = p;
    }
    let mut doc = Automerge::new().with_actor(ActorId::from(b"cccccc" as &[u8]));
    let accepted = match doc.transaction_log_patches(pl) {
        Err(_) => None,
        Ok(mut tx) => {
            tx.put(ROOT, "y", 1).unwrap();
            let (_, p) = tx.commit();
            Some(p)
        }
    };
    if let Some(mut p) = accepted {
        let _ = doc.make_patches(&mut p);
        panic!("a foreign patch log was accepted");
    }
}

#[test]
fn own_patch_log_still_accepted_after_new_actors() {
    let mut doc = Automerge::new().with_actor(ActorId::from(b"cccccc" as &[u8]));
    let mut pl = PatchLog::active();
    {
        let mut tx = doc.transaction_log_patches(pl).unwrap();
        tx.put(ROOT, "x", 1).unwrap();
        let (_, p) = tx.commit();
        pl = p;
    }
    let mut b = doc.fork().with_actor(ActorId::from(b"aaaaaa" as &[u8]));
    b.transact::<_, _, automerge::AutomergeError>(|tx| tx.put(ROOT, "z", 3)).unwrap();
    let mut c = doc.fork().with_actor(ActorId::from(b"eeeeee" as &[u8]));
    c.transact::<_, _, automerge::AutomergeError>(|tx| tx.put(ROOT, "w", 4)).unwrap();
    doc.merge(&mut b).unwrap();
    doc.merge(&mut c).unwrap();
    let mut tx = doc.transaction_log_patches(pl).unwrap();
    tx.put(ROOT, "y", 2).unwrap();
    let (_, mut p) = tx.commit();
    let patches = doc.make_patches(&mut p);
    assert!(!patches.is_empty());
}
