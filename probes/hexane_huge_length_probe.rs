use hexane::{Column, DeltaColumn, LoadOpts, PrefixColumn};
fn sleb(mut v: i64, out: &mut Vec<u8>) {
    loop {
        let b = (v & 0x7f) as u8;
        v >>= 7;
        let done = (v == 0 && b & 0x40 == 0) || (v == -1 && b & 0x40 != 0);
        out.push(if done { b } else { b | 0x80 });
        if done {
            break;
        }
    }
}
fn uleb(mut v: u64, out: &mut Vec<u8>) {
    loop {
        let b = (v & 0x7f) as u8;
        v >>= 7;
        if v == 0 {
            out.push(b);
            break;
        }
        out.push(b | 0x80);
    }
}
// n runs of `count` items with distinct small values
fn runs(n: usize, count: i64) -> Vec<u8> {
    let mut d = vec![];
    for i in 0..n {
        sleb(count, &mut d);
        d.push(1 + (i % 2) as u8);
    }
    d
}
// n null runs alternating with value runs
fn null_runs(n: usize, count: i64) -> Vec<u8> {
    let mut d = vec![];
    for _ in 0..n {
        d.push(0);
        uleb(count as u64, &mut d);
        sleb(count, &mut d);
        d.push(1);
    }
    d
}
fn bool_runs(n: usize, count: u64) -> Vec<u8> {
    let mut d = vec![];
    for _ in 0..n {
        uleb(count, &mut d);
    }
    d
}
fn show<T: std::fmt::Debug>(
    what: &str,
    f: impl FnOnce() -> Result<T, hexane::PackError> + std::panic::UnwindSafe,
) -> bool {
    let r = std::panic::catch_unwind(f);
    match r {
        Ok(r) => {
            println!("{what} -> {:?}", r.map_err(|e| e.to_string()));
            true
        }
        Err(_) => {
            println!("{what} -> PANIC");
            false
        }
    }
}
#[test]
fn huge_declared_lengths() {
    let mut ok = true;
    for count in [i64::MAX, i64::MAX / 2 + 1, 1i64 << 62, 1i64 << 40] {
        for n in 1..=5 {
            let d = runs(n, count);
            ok &= show(&format!("u64 runs={n} count={count}"), {
                let d = d.clone();
                move || Column::<u64>::load(&d).map(|c| c.len())
            });
            ok &= show(&format!("opt u64 runs={n} count={count}"), {
                let d = d.clone();
                move || Column::<Option<u64>>::load(&d).map(|c| c.len())
            });
            ok &= show(&format!("prefix u32 runs={n} count={count}"), {
                let d = d.clone();
                move || PrefixColumn::<u32>::load(&d).map(|c| c.len())
            });
            ok &= show(&format!("delta u64 runs={n} count={count}"), {
                let d = d.clone();
                move || DeltaColumn::<u64>::load(&d).map(|c| c.len())
            });
            ok &= show(&format!("delta opt i64 runs={n} count={count}"), {
                let d = d.clone();
                move || DeltaColumn::<Option<i64>>::load(&d).map(|c| c.len())
            });
            let dn = null_runs(n, count);
            ok &= show(&format!("opt u64 nullruns={n} count={count}"), {
                let d = dn.clone();
                move || Column::<Option<u64>>::load(&d).map(|c| c.len())
            });
            ok &= show(&format!("delta opt nullruns={n} count={count}"), {
                let d = dn.clone();
                move || DeltaColumn::<Option<i64>>::load(&d).map(|c| c.len())
            });
            let db = bool_runs(n, count as u64);
            ok &= show(&format!("bool runs={n} count={count}"), {
                let d = db.clone();
                move || Column::<bool>::load(&d).map(|c| c.len())
            });
            ok &= show(&format!("prefix bool runs={n} count={count}"), {
                let d = db.clone();
                move || PrefixColumn::<bool>::load(&d).map(|c| c.len())
            });
        }
    }
    // two maximal runs followed by a literal run of three values: the literal items are counted one by one
    for n in [2usize, 3] {
        let mut d = runs(n, i64::MAX);
        sleb(-3, &mut d); d.extend_from_slice(&[7, 8, 9]);
        ok &= show(&format!("u64 runs={n} + 3 literals"), { let d = d.clone(); move || Column::<u64>::load(&d).map(|c| c.len()) });
        ok &= show(&format!("prefix u32 runs={n} + 3 literals"), { let d = d.clone(); move || PrefixColumn::<u32>::load(&d).map(|c| c.len()) });
        ok &= show(&format!("delta u64 runs={n} + 3 literals"), { let d = d.clone(); move || DeltaColumn::<u64>::load(&d).map(|c| c.len()) });
    }
    let db = bool_runs(3, u64::MAX);
    ok &= show("bool runs=3 count=u64::MAX", move || {
        Column::<bool>::load(&db).map(|c| c.len())
    });
    // a second column that must be filled to a declared length
    for len in [usize::MAX, i64::MAX as usize + 1, i64::MAX as usize] {
        if len == i64::MAX as usize {
            continue;
        } // legal, but allocates nothing interesting
        ok &= show(&format!("fill None len={len}"), move || {
            Column::<Option<u64>>::load_with(&[], LoadOpts::new().with_length(len).with_fill(None))
                .map(|c| c.len())
        });
        ok &= show(&format!("fill false len={len}"), move || {
            PrefixColumn::<bool>::load_with(&[], LoadOpts::new().with_length(len).with_fill(false))
                .map(|c| c.len())
        });
        ok &= show(&format!("fill delta None len={len}"), move || {
            DeltaColumn::<Option<u32>>::load_with(
                &[],
                LoadOpts::new().with_length(len).with_fill(None),
            )
            .map(|c| c.len())
        });
    }
    assert!(ok);
}
