fn uleb(mut v: u64) -> Vec<u8> { let mut o = vec![]; loop { let mut b = (v & 0x7f) as u8; v >>= 7; if v != 0 { b |= 0x80; } o.push(b); if v == 0 { break; } } o }
#[test]
fn prefix_overflow() {
    let mut b = uleb(1 << 40); b.extend(uleb(1 << 31));
    let r = std::panic::catch_unwind(|| hexane::PrefixColumn::<u32>::load(&b).map(|c| c.len()));
    eprintln!("PROBE u32 run: {:?}", r.as_ref().map(|x| x.as_ref().map_err(|e| e.to_string())).map_err(|_| "PANIC"));
    // bool column: false run 0, true run u64::MAX/2+1, false run 1, true run u64::MAX/2+1
    let mut b = uleb(0); b.extend(uleb((1u64 << 63) + 5)); b.extend(uleb(1)); b.extend(uleb((1u64 << 63) + 5));
    let r = std::panic::catch_unwind(|| hexane::PrefixColumn::<bool>::load(&b).map(|c| c.len()));
    eprintln!("PROBE bool runs: {:?}", r.as_ref().map(|x| x.as_ref().map_err(|e| e.to_string())).map_err(|_| "PANIC"));
}
