use automerge::{AutoCommit, ObjType, ReadDoc, ROOT, transaction::Transactable};
use std::panic::{catch_unwind, AssertUnwindSafe};
fn rep(n: &str, r: std::thread::Result<()>) { eprintln!("PROBE {n}: {}", if r.is_err() { "PANIC" } else { "ok" }); }
#[test]
fn probes() {
    for idx in [usize::MAX, usize::MAX - 1, usize::MAX / 2, 1usize << 40] {
        rep(&format!("get {idx}"), catch_unwind(AssertUnwindSafe(|| { let mut d = AutoCommit::new(); let l = d.put_object(ROOT, "l", ObjType::List).unwrap(); d.insert(&l, 0, 1).unwrap(); assert!(d.get(&l, idx).unwrap().is_none()); })));
        rep(&format!("insert {idx}"), catch_unwind(AssertUnwindSafe(|| { let mut d = AutoCommit::new(); let l = d.put_object(ROOT, "l", ObjType::List).unwrap(); d.insert(&l, 0, 1).unwrap(); assert!(d.insert(&l, idx, 2).is_err()); })));
        rep(&format!("delete {idx}"), catch_unwind(AssertUnwindSafe(|| { let mut d = AutoCommit::new(); let l = d.put_object(ROOT, "l", ObjType::List).unwrap(); d.insert(&l, 0, 1).unwrap(); assert!(d.delete(&l, idx).is_err()); })));
        rep(&format!("splice_text {idx}"), catch_unwind(AssertUnwindSafe(|| { let mut d = AutoCommit::new(); let t = d.put_object(ROOT, "t", ObjType::Text).unwrap(); d.splice_text(&t, 0, 0, "abc").unwrap(); assert!(d.splice_text(&t, idx, 0, "x").is_err()); })));
        rep(&format!("get_cursor {idx}"), catch_unwind(AssertUnwindSafe(|| { let mut d = AutoCommit::new(); let t = d.put_object(ROOT, "t", ObjType::Text).unwrap(); d.splice_text(&t, 0, 0, "abc").unwrap(); assert!(d.get_cursor(&t, idx, None).is_err()); })));
    }
    // in-range behaviour unchanged
    let mut d = AutoCommit::new(); let l = d.put_object(ROOT, "l", ObjType::List).unwrap();
    for i in 0..5 { d.insert(&l, i, i as i64).unwrap(); }
    assert_eq!(d.get(&l, 4).unwrap().unwrap().0.to_i64(), Some(4)); assert!(d.get(&l, 5).unwrap().is_none());
}
