use automerge::{
    hydrate,
    marks::{ExpandMark, Mark},
    transaction::Transactable,
    AutoCommit, ObjId, ObjType, Patch, PatchAction, Prop, ReadDoc, TextEncoding, ROOT,
};
use std::panic::{catch_unwind, AssertUnwindSafe};
fn report(name: &str, r: std::thread::Result<()>) {
    eprintln!("PROBE {name}: {}", if r.is_err() { "PANIC" } else { "ok" });
}
#[test]
fn probes() {
    report(
        "delete_seq_oob",
        catch_unwind(AssertUnwindSafe(|| {
            let mut v = hydrate::Value::List(hydrate::List::from(vec![hydrate::Value::from(1i64)]));
            let p = Patch {
                obj: ROOT,
                path: vec![],
                action: PatchAction::DeleteSeq {
                    index: 5,
                    length: 1,
                },
            };
            let _ = v.apply_patches(TextEncoding::platform_default(), vec![p]);
        })),
    );
    report(
        "list_mark",
        catch_unwind(AssertUnwindSafe(|| {
            let mut v = hydrate::Value::List(hydrate::List::from(vec![hydrate::Value::from(1i64)]));
            let p = Patch {
                obj: ROOT,
                path: vec![],
                action: PatchAction::Mark { marks: vec![] },
            };
            let _ = v.apply_patches(TextEncoding::platform_default(), vec![p]);
        })),
    );
    // library-produced mark patches applied to a hydrated document
    report(
        "library_mark_patch_on_text",
        catch_unwind(AssertUnwindSafe(|| {
            let mut d = AutoCommit::new();
            let t = d.put_object(ROOT, "t", ObjType::Text).unwrap();
            d.splice_text(&t, 0, 0, "hello").unwrap();
            d.commit();
            d.update_diff_cursor();
            let mut h = d.hydrate(&ROOT, None).unwrap();
            d.mark(&t, Mark::new("bold".into(), true, 0, 3), ExpandMark::Both)
                .unwrap();
            d.commit();
            let patches = d.diff_incremental();
            eprintln!("patches: {}", patches.len());
            let r = h.apply_patches(TextEncoding::platform_default(), patches);
            eprintln!("apply result ok={}", r.is_ok());
        })),
    );
}
