// Probe (temporary integration test; copy to rust/automerge/tests/ to run): C29 -- inside isolate(heads) / transaction_at(heads)
// EVERY read shows the state at those heads plus the transaction's own edits.  Before D30 `ReadDoc::hydrate(obj, None)` of
// AutoCommit and of Transaction passed `heads` straight to `Automerge::hydrate_obj`, ignoring the isolation scope that
// every other read goes through (`get_scope`): it showed the whole current document.
use automerge::transaction::Transactable;
use automerge::{AutoCommit, Automerge, PatchLog, ReadDoc, ROOT};

#[test]
fn autocommit_hydrate_honours_isolation() {
    let mut doc = AutoCommit::new();
    doc.put(ROOT, "a", 1).unwrap();
    doc.commit();
    let h1 = doc.get_heads();
    doc.put(ROOT, "b", 2).unwrap();
    doc.commit();
    let full = doc.hydrate(ROOT, None).unwrap();
    let at_h1 = doc.hydrate(ROOT, Some(&h1)).unwrap();
    assert_ne!(full, at_h1);
    doc.isolate(&h1);
    assert_eq!(doc.keys(ROOT).collect::<Vec<_>>(), vec!["a".to_string()]);
    assert_eq!(doc.hydrate(ROOT, None).unwrap(), at_h1, "hydrate ignores the isolation scope");
    // with an open isolated transaction: the scope plus its own edit
    doc.put(ROOT, "c", 3).unwrap();
    let mut v = doc.hydrate(ROOT, None).unwrap();
    let keys: Vec<String> = doc.keys(ROOT).collect();
    assert_eq!(keys, vec!["a".to_string(), "c".to_string()]);
    assert_eq!(v.as_map().unwrap().iter().map(|(k, _)| k.to_string()).collect::<Vec<_>>(), keys);
    doc.integrate();
    assert_eq!(doc.keys(ROOT).count(), 3);
}

#[test]
fn transaction_at_hydrate_honours_scope() {
    let mut doc = Automerge::new();
    doc.transact::<_, _, automerge::AutomergeError>(|tx| tx.put(ROOT, "a", 1)).unwrap();
    let h1 = doc.get_heads();
    doc.transact::<_, _, automerge::AutomergeError>(|tx| tx.put(ROOT, "b", 2)).unwrap();
    let at_h1 = doc.hydrate(Some(&h1));
    let mut tx = doc.transaction_at(PatchLog::inactive(), &h1).unwrap();
    assert_eq!(tx.keys(ROOT).collect::<Vec<_>>(), vec!["a".to_string()]);
    assert_eq!(tx.hydrate(ROOT, None).unwrap(), at_h1, "hydrate ignores the transaction scope");
    tx.put(ROOT, "c", 3).unwrap();
    let keys: Vec<String> = tx.keys(ROOT).collect();
    assert_eq!(keys, vec!["a".to_string(), "c".to_string()]);
    let mut v = tx.hydrate(ROOT, None).unwrap();
    assert_eq!(v.as_map().unwrap().iter().map(|(k, _)| k.to_string()).collect::<Vec<_>>(), keys);
    tx.commit();
}
