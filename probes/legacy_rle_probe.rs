use automerge::transaction::Transactable;
use automerge::{ActorId, AutoCommit, Automerge, Change, ROOT};
use sha2::{Digest, Sha256};
fn read_uleb(b: &[u8], pos: &mut usize) -> u64 { let mut res = 0u64; let mut shift = 0; loop { let byte = b[*pos]; *pos += 1; res |= ((byte & 0x7f) as u64) << shift; shift += 7; if byte & 0x80 == 0 { return res; } } }
fn write_uleb(out: &mut Vec<u8>, mut v: u64) { loop { let mut byte = (v & 0x7f) as u8; v >>= 7; if v != 0 { byte |= 0x80; } out.push(byte); if v == 0 { break; } } }
fn write_sleb(out: &mut Vec<u8>, mut v: i64) { loop { let byte = (v & 0x7f) as u8; v >>= 7; let done = (v == 0 && byte & 0x40 == 0) || (v == -1 && byte & 0x40 != 0); out.push(if done { byte } else { byte | 0x80 }); if done { break; } } }
/// rebuild a change chunk with op column `spec` replaced
fn replace_change_column(ch: &[u8], spec: u32, newcol: &[u8]) -> Vec<u8> {
    assert_eq!(ch[8], 1);
    let mut pos = 9; let _len = read_uleb(ch, &mut pos); let body_start = pos;
    let ndeps = read_uleb(ch, &mut pos) as usize; pos += 32 * ndeps;
    let al = read_uleb(ch, &mut pos) as usize; pos += al;
    let _seq = read_uleb(ch, &mut pos); let _so = read_uleb(ch, &mut pos); let _t = read_uleb(ch, &mut pos);
    let ml = read_uleb(ch, &mut pos) as usize; pos += ml;
    let no = read_uleb(ch, &mut pos); for _ in 0..no { let l = read_uleb(ch, &mut pos) as usize; pos += l; }
    let prefix_end = pos;
    let ncols = read_uleb(ch, &mut pos);
    let meta: Vec<(u32, usize)> = (0..ncols).map(|_| { let s = read_uleb(ch, &mut pos) as u32; let l = read_uleb(ch, &mut pos) as usize; (s, l) }).collect();
    let mut cols = vec![]; for (s, l) in &meta { cols.push((*s, ch[pos..pos + l].to_vec())); pos += l; }
    let tail = &ch[pos..];
    let mut found = false; for c in cols.iter_mut() { if c.0 == spec { c.1 = newcol.to_vec(); found = true; } }
    if !found { cols.push((spec, newcol.to_vec())); cols.sort_by_key(|c| c.0); }
    let mut body = ch[body_start..prefix_end].to_vec();
    write_uleb(&mut body, cols.len() as u64);
    for (s, c) in &cols { write_uleb(&mut body, *s as u64); write_uleb(&mut body, c.len() as u64); }
    for (_, c) in &cols { body.extend_from_slice(c); }
    body.extend_from_slice(tail);
    let mut out = vec![0x85, 0x6f, 0x4a, 0x83, 0, 0, 0, 0, 1]; write_uleb(&mut out, body.len() as u64); out.extend_from_slice(&body);
    let mut hashed = vec![1u8]; write_uleb(&mut hashed, body.len() as u64); hashed.extend_from_slice(&body);
    let d = Sha256::digest(&hashed); out[4..8].copy_from_slice(&d[..4]); out
}
#[test]
fn legacy_rle_extreme_run_headers() {
    let mut doc = AutoCommit::new().with_actor(ActorId::from([3u8; 16]));
    doc.put(ROOT, "k1", "ab").unwrap(); doc.put(ROOT, "k2", "cd").unwrap(); doc.commit();
    let bytes = doc.get_last_local_change().unwrap().raw_bytes().to_vec();
    Change::from_bytes(bytes.clone()).unwrap();
    // key string column of a change: spec (1 << 4) | 5 = 21
    let mut lit = vec![]; write_sleb(&mut lit, i64::MIN);
    let a = replace_change_column(&bytes, 21, &lit);
    let r = std::panic::catch_unwind(|| Change::from_bytes(a).map(|_| ()));
    eprintln!("PROBE literal run of i64::MIN: {:?}", r.as_ref().map(|x| x.as_ref().map_err(|e| e.to_string())).map_err(|_| "PANIC"));
    let mut nul = vec![0u8]; write_uleb(&mut nul, 1u64 << 63);
    let b = replace_change_column(&bytes, 21, &nul);
    let r2 = std::panic::catch_unwind(|| { let mut d = Automerge::new(); let _ = d.load_incremental(&b); });
    eprintln!("PROBE null run of 2^63: {}", if r2.is_err() { "PANIC" } else { "ok" });
    assert!(r.is_ok() && r2.is_ok());
}
