use automerge::transaction::Transactable;
use automerge::{ActorId, Automerge, ROOT};
use sha2::{Digest, Sha256};

fn read_uleb(b: &[u8], pos: &mut usize) -> u64 {
    let mut res = 0u64;
    let mut shift = 0;
    loop {
        let byte = b[*pos];
        *pos += 1;
        res |= ((byte & 0x7f) as u64) << shift;
        shift += 7;
        if byte & 0x80 == 0 {
            return res;
        }
    }
}
fn write_uleb(out: &mut Vec<u8>, mut v: u64) {
    loop {
        let mut byte = (v & 0x7f) as u8;
        v >>= 7;
        if v != 0 {
            byte |= 0x80;
        }
        out.push(byte);
        if v == 0 {
            break;
        }
    }
}

/// rebuild a document chunk with op column `spec` replaced by `newcol`
fn replace_op_column(doc: &[u8], spec: u32, newcol: &[u8]) -> Vec<u8> {
    let mut pos = 9;
    let _len = read_uleb(doc, &mut pos);
    let body_start = pos;
    let n_actors = read_uleb(doc, &mut pos);
    for _ in 0..n_actors {
        let l = read_uleb(doc, &mut pos) as usize;
        pos += l;
    }
    let n_heads = read_uleb(doc, &mut pos) as usize;
    pos += 32 * n_heads;
    let prefix_end = pos;
    let read_meta = |pos: &mut usize| {
        let n = read_uleb(doc, pos);
        (0..n)
            .map(|_| {
                let s = read_uleb(doc, pos) as u32;
                let l = read_uleb(doc, pos) as usize;
                (s, l)
            })
            .collect::<Vec<_>>()
    };
    let change_meta = read_meta(&mut pos);
    let ops_meta = read_meta(&mut pos);
    let change_len: usize = change_meta.iter().map(|c| c.1).sum();
    let change_data = &doc[pos..pos + change_len];
    pos += change_len;
    let mut ops_cols = vec![];
    for (s, l) in &ops_meta {
        ops_cols.push((*s, doc[pos..pos + l].to_vec()));
        pos += l;
    }
    let suffix = &doc[pos..];
    let mut body = doc[body_start..prefix_end].to_vec();
    write_uleb(&mut body, change_meta.len() as u64);
    for (s, l) in &change_meta {
        write_uleb(&mut body, *s as u64);
        write_uleb(&mut body, *l as u64);
    }
    let mut found = false;
    for c in ops_cols.iter_mut() {
        if c.0 == spec {
            c.1 = newcol.to_vec();
            found = true;
        }
    }
    assert!(found);
    write_uleb(&mut body, ops_cols.len() as u64);
    for (s, c) in &ops_cols {
        write_uleb(&mut body, *s as u64);
        write_uleb(&mut body, c.len() as u64);
    }
    body.extend_from_slice(change_data);
    for (_, c) in &ops_cols {
        body.extend_from_slice(c);
    }
    body.extend_from_slice(suffix);
    let mut out = vec![0x85, 0x6f, 0x4a, 0x83, 0, 0, 0, 0, 0];
    write_uleb(&mut out, body.len() as u64);
    out.extend_from_slice(&body);
    let mut hashed = vec![0u8];
    write_uleb(&mut hashed, body.len() as u64);
    hashed.extend_from_slice(&body);
    let digest = Sha256::digest(&hashed);
    out[4..8].copy_from_slice(&digest[..4]);
    out
}

#[test]
fn huge_value_meta_run() {
    let mut doc = Automerge::new().with_actor(ActorId::from([1u8; 16]));
    let mut tx = doc.transaction();
    for i in 0..40 {
        tx.put(ROOT, format!("k{i}"), "ab").unwrap();
    }
    tx.commit();
    let bytes = doc.save();
    // sanity: rebuilding with the same column loads
    // value meta column spec = (5<<4)|6 = 86 ; four strings of length 2: run of 4 x ((2<<4)|6 = 38)
    let same = replace_op_column(&bytes, 86, &[40, 38]);
    Automerge::load(&same).expect("identity rebuild must load");
    // run of 4 values each claiming length 2^59 (meta = (2^59 << 4) | 6): the prefix sum overflows u64
    let mut col = vec![40u8];
    write_uleb(&mut col, (((1u64 << 60) - 1) << 4) | 6);
    let evil = replace_op_column(&bytes, 86, &col);
    let r = std::panic::catch_unwind(|| Automerge::load(&evil).map(|_| ()));
    eprintln!(
        "PROBE huge_value_meta: {:?}",
        r.as_ref()
            .map(|x| x.as_ref().map_err(|e| e.to_string()))
            .map_err(|_| "PANIC")
    );
    assert!(r.is_ok());
}
