"""Spec manifest: units, Kani harnesses (with their declared completeness/bounds) and the mapping
from properties to the obligations that decide them.  A run that cannot find one of the names listed
here is a tool failure (exit 2)."""

UNITS = {
    "u01_bloom": {"verus": "specs/u01_bloom.vt.rs"},
    "u02_parse": {"verus": "specs/u02_parse.vt.rs"},
    "u03_chunk": {"verus": "specs/u03_chunk.vt.rs"},
    "u04_ids": {"verus": "specs/u04_ids.vt.rs"},
    "u04c_codecs": {"verus": "specs/u04c_codecs.vt.rs"},
    "u10_changes": {"verus": "specs/u10_changes.vt.rs"},
    "u13_load": {"verus": "specs/u13_load.vt.rs"},
    "u06v_hexane_str": {"verus": "specs/u06v_hexane_str.vt.rs"},
    "u05v_sync_flags": {"verus": "specs/u05v_sync_flags.vt.rs"},
    "u14_loadopts": {"verus": "specs/u14_loadopts.vt.rs"},
    "u15_colids": {"verus": "specs/u15_colids.vt.rs"},
    "u16_autocommit": {"verus": "specs/u16_autocommit.vt.rs"},
    "u18_actor_table": {"verus": "specs/u18_actor_table.vt.rs"},
    "u19_import": {"verus": "specs/u19_import.vt.rs"},
    "u20_chunkparse": {"verus": "specs/u20_chunkparse.vt.rs"},
    "u21_patchlog_tx": {"verus": "specs/u21_patchlog_tx.vt.rs"},
    "u32_decodable_alloc": {"verus": "specs/u32_decodable_alloc.vt.rs"},
    "u33_delta_nth": {"verus": "specs/u33_delta_nth.vt.rs"},
    "u34_delta_agg": {"verus": "specs/u34_delta_agg.vt.rs"},
    "u35_rle_track": {"verus": "specs/u35_rle_track.vt.rs"},
    "u36_bool_load": {"verus": "specs/u36_bool_load.vt.rs"},
    "u37_readonly_sync": {"verus": "specs/u37_readonly_sync.vt.rs"},
    "u38_seek_opid": {"verus": "specs/u38_seek_opid.vt.rs"},
    "u22_loadnext": {"verus": "specs/u22_loadnext.vt.rs"},
    "u23_exid_order": {"verus": "specs/u23_exid_order.vt.rs"},
    "u24_changeparse": {"verus": "specs/u24_changeparse.vt.rs"},
    "u25_syncstate": {"verus": "specs/u25_syncstate.vt.rs"},
    "u26_skipper": {"verus": "specs/u26_skipper.vt.rs"},
    "u27_hydrate_list": {"verus": "specs/u27_hydrate_list.vt.rs"},
    "u28_valuemeta": {"verus": "specs/u28_valuemeta.vt.rs"},
    "u29_hexane_prefix": {"verus": "specs/u29_hexane_prefix.vt.rs"},
    "u30_legacy_rle": {"verus": "specs/u30_legacy_rle.vt.rs"},
    "u31_hexane_bool": {"verus": "specs/u31_hexane_bool.vt.rs"},
}
CHUNK = "rust/automerge/src/storage/chunk.rs"
EXID = "rust/automerge/src/exid.rs"
CURSOR = "rust/automerge/src/cursor.rs"
TYPES = "rust/automerge/src/types.rs"

BLOOM = "rust/automerge/src/sync/bloom.rs"

# mode: complete  -> loop-free or width-bounded, full input domain: counted as discharged obligation
#       bounded   -> stand-in within the stated bound: listed separately, never counted as proved
HARNESSES = {
    "u01_get_bit_contract": {"crate": "automerge", "file": BLOOM, "fn": "get_bit", "mode": "bounded",
                             "bound": "bit arrays of 0,1,2,4 bytes; complete over every usize probe and every byte value (get_bit is one `get` + one mask: length-generic)",
                             "backs": "u01_bloom/get_bit (assumed external_body contract in the Verus unit)", "warm": True},
    "u01_bits_capacity_10": {"crate": "automerge", "file": BLOOM, "fn": "bits_capacity", "mode": "complete",
                             "bound": "all u32 entry counts at BITS_PER_ENTRY=10 (loop-free f64 arithmetic)"},
    "u01_bits_capacity_total": {"crate": "automerge", "file": BLOOM, "fn": "bits_capacity", "mode": "complete",
                                "bound": "all u32 x u32 (loop-free): no panic, result <= 2^61"},
    "u01_parse_wf_quick": {"crate": "automerge", "file": BLOOM, "fn": "parse", "mode": "bounded", "bound": "all inputs of <= 6 bytes"},
    "u01_parse_wf_thorough": {"crate": "automerge", "file": BLOOM, "fn": "parse", "mode": "bounded", "bound": "all inputs of <= 10 bytes", "tier": "thorough"},
    "u01_add_contains_2x7": {"crate": "automerge", "file": BLOOM, "unwind_is_contract": "get_probes iterates at most max(1, num_probes) <= 7 times for this filter (C17 loop bound)", "fn": "add_hash, contains_hash, get_probes, set_bit", "mode": "bounded", "bound": "2-byte bit array, 7 probes, symbolic contents and hash"},
    "u01_add_contains_3x0": {"crate": "automerge", "file": BLOOM, "unwind_is_contract": "get_probes iterates at most max(1, num_probes) <= 7 times for this filter (C17 loop bound)", "fn": "add_hash, contains_hash, get_probes", "mode": "bounded", "bound": "3-byte bit array, wire probe count 0"},
    "u01_add_contains_0x7": {"crate": "automerge", "file": BLOOM, "unwind_is_contract": "get_probes iterates at most max(1, num_probes) <= 7 times for this filter (C17 loop bound)", "fn": "add_hash, contains_hash, get_probes", "mode": "bounded", "bound": "zero-bit filter"},
    "u01_query_total": {"crate": "automerge", "file": BLOOM, "unwind_is_contract": "get_probes iterates at most max(1, num_probes) <= 7 times for this filter (C17 loop bound)", "fn": "contains_hash, get_probes", "mode": "bounded", "bound": "shapes (0B,7p) (0B,0p) (1B,1p) (2B,7p), symbolic contents"},
    "u01_from_hashes_2": {"crate": "automerge", "file": BLOOM, "unwind_is_contract": "get_probes iterates at most max(1, num_probes) <= 7 times for this filter (C17 loop bound)", "fn": "from_hashes", "mode": "bounded", "bound": "2 symbolic hashes"},
    "u01_roundtrip_1": {"crate": "automerge", "file": BLOOM, "fn": "to_bytes, parse", "mode": "bounded", "bound": "1 entry (2 bytes of bits), symbolic bits, probes <= 255"},
    # ---- U03 chunk
    "u03_header_parse_q": {"crate": "automerge", "file": CHUNK, "fn": "Header::parse, Header::write, Header::len, Header::data_bytes", "mode": "bounded",
                           "bound": "all inputs of <= 20 bytes (every header shape up to a 10-byte length field + data up to the remaining bytes); SHA-256 stubbed",
                           "stubs": ["hash -> hash_stub"], "timeout_s": 900},
    "u03_header_parse_t": {"crate": "automerge", "file": CHUNK, "fn": "Header::parse, Header::write", "mode": "bounded", "bound": "all inputs of <= 24 bytes; SHA-256 stubbed",
                           "stubs": ["hash -> hash_stub"], "tier": "thorough", "timeout_s": 1800},
    "u03_header_parse_long": {"crate": "automerge", "file": CHUNK, "fn": "Header::parse", "mode": "bounded",
                              "bound": "every 11-byte header in front of 130 zero data bytes, every cut (a chunk whose length field needs two LEB128 bytes); SHA-256 stubbed",
                              "stubs": ["hash -> hash_stub"], "timeout_s": 900},
    "u03_checksum_valid": {"crate": "automerge", "file": CHUNK, "fn": "Header::checksum_valid, CheckSum::from(ChangeHash), ChangeHash::checksum", "mode": "complete",
                           "bound": "all 32-byte hashes x all 4-byte checksums (loop-free)"},
    "u03_chunktype_codes": {"crate": "automerge", "file": CHUNK, "fn": "ChunkType::try_from(u8), u8::from(ChunkType)", "mode": "complete", "bound": "all u8 (loop-free)"},
    "u03_header_roundtrip_0": {"crate": "automerge", "file": CHUNK, "fn": "Header::new, Header::write, Header::parse", "mode": "bounded", "bound": "empty data; SHA-256 stubbed", "stubs": ["hash -> hash_stub"]},
    "u03_header_roundtrip_3": {"crate": "automerge", "file": CHUNK, "fn": "Header::new, Header::write, Header::parse", "mode": "bounded", "bound": "3 data bytes; SHA-256 stubbed", "stubs": ["hash -> hash_stub"]},
    "u03_leb128_writer_matches_parser": {"crate": "automerge", "file": CHUNK, "fn": "leb128::write::unsigned (dependency), parse::leb128_u64, ulebsize", "mode": "complete",
                                         "bound": "all u64; loops bounded by the 10-byte encoding width (unwind 12, unwinding assertions on)",
                                         "backs": "assumed writer contract `out == old ++ leb(n)` of the Verus units"},
    # ---- U04 ids
    "u04_opid_order": {"crate": "automerge", "file": TYPES, "fn": "OpId::cmp, OpId::partial_cmp", "mode": "complete", "bound": "all triples of (u32,u32) ids (loop-free)"},
    "u04_opid_actor_shift": {"crate": "automerge", "file": TYPES, "fn": "OpId::with_new_actor, OpId::without_actor", "mode": "complete", "bound": "all ids with actor < u32::MAX, all usize indexes (loop-free)"},
    "u04_opid_new": {"crate": "automerge", "file": TYPES, "fn": "OpId::new, OpId::counter, OpId::actor", "mode": "complete", "bound": "all in-range (u64, usize) (loop-free)"},
    "u04_changehash_try_from_slice": {"crate": "automerge", "file": TYPES, "fn": "ChangeHash::try_from(&[u8])", "mode": "complete", "bound": "all slices of length 0..=33 (the function only compares the length with 32)",
                                      "backs": "the ChangeHash::try_from contract assumed by the Verus unit u02 (parse::change_hash)"},
    "u04_actorid_bytes_roundtrip": {"crate": "automerge", "file": TYPES, "fn": "ActorId::from(&[u8]), ActorId::to_bytes", "mode": "bounded", "bound": "byte strings of length 0..=17 (inline and heap representation)",
                                    "backs": "axiom_actor_of (admitted) of the Verus unit u04c"},
    "u04_exid_try_from_total_q": {"crate": "automerge", "file": EXID, "fn": "ExId::try_from(&[u8])", "mode": "bounded", "bound": "all inputs of <= 6 bytes", "timeout_s": 900},
    "u04_exid_try_from_total_t": {"crate": "automerge", "file": EXID, "fn": "ExId::try_from(&[u8])", "mode": "bounded", "bound": "all inputs of <= 12 bytes", "tier": "thorough", "timeout_s": 2400},
    "u04_cursor_from_str_total_q": {"crate": "automerge", "file": CURSOR, "fn": "Cursor::from_str", "mode": "bounded", "bound": "all UTF-8 strings of <= 3 bytes without an '@' (contains the empty string and non-ASCII first characters; stops before the hex decoding of the actor)", "timeout_s": 900},
    # ---- U05 sync codecs
    "u05_flags_roundtrip": {"crate": "automerge", "file": "rust/automerge/src/sync.rs", "fn": "MessageFlags::encode, MessageFlags::parse_bytes", "mode": "complete", "bound": "all 7-bit flag values (loops bounded by the 3-byte section)"},
    "u05_flags_set_contains": {"crate": "automerge", "file": "rust/automerge/src/sync.rs", "fn": "MessageFlags::set, MessageFlags::contains, MessageFlags::new", "mode": "complete", "bound": "all u8 x single-bit flags (loop-free)"},
    "u05_flags_parse_bytes": {"crate": "automerge", "file": "rust/automerge/src/sync.rs", "fn": "MessageFlags::parse_bytes", "mode": "bounded", "bound": "all flag sections of <= 3 bytes"},
    "u05_encode_many_prefix": {"crate": "automerge", "file": "rust/automerge/src/sync.rs", "fn": "encode_many (count prefix of encode_hashes / Message::encode / State::encode)", "mode": "complete", "bound": "all usize element counts (element source reports a symbolic len and yields nothing; LEB128 loops bounded by the 10-byte width)"},
    "u05_message_encode_skeleton": {"crate": "automerge", "file": "rust/automerge/src/sync.rs", "fn": "Message::encode (with MessageVersion::encode, MessageFlags::encode, encode_many)", "mode": "bounded", "timeout_s": 900,
                                    "bound": "all four lists empty; every version x flags combination"},
    "u05_set_read_only_transitions": {"crate": "automerge", "file": "rust/automerge/src/sync/state.rs", "fn": "State::set_read_only", "mode": "bounded", "bound": "all flag combinations; container fields empty or one capability"},
    # ---- U06 hexane
    "u06_leb_unsigned_roundtrip": {"crate": "hexane", "file": "rust/hexane/src/codec.rs", "fn": "Leb128::encode_unsigned, read_unsigned, try_read_unsigned, unsigned_len, unsigned_size, ulebsize, VarBuf::push, VarBuf::as_bytes", "mode": "complete", "bound": "all u64 (loops bounded by the 10-byte width, unwind 12 with unwinding assertions)"},
    "u06_leb_signed_roundtrip": {"crate": "hexane", "file": "rust/hexane/src/codec.rs", "fn": "Leb128::encode_signed, read_signed, try_read_signed, signed_len, signed_size, lebsize", "mode": "complete", "bound": "all i64 (loops bounded by the 10-byte width)"},
    "u06_codec_reads_agree": {"crate": "hexane", "file": "rust/hexane/src/codec.rs", "fn": "Leb128::read_unsigned, Leb128::try_read_unsigned", "mode": "complete", "bound": "all inputs of <= 11 bytes (one more than the longest encoding)",
                              "backs": "the Codec trait contract assumed by the Verus unit u06v_hexane_str"},
    "u06_signed_bytes_is_consumed": {"crate": "hexane", "file": "rust/hexane/src/codec.rs", "fn": "Codec::signed_bytes, Leb128::signed_len, Leb128::read_signed", "mode": "complete", "bound": "all inputs of <= 11 bytes (one more than the longest encoding)"},
    "u06_int_unpack_total": {"crate": "hexane", "file": "rust/hexane/src/lib.rs", "fn": "<u64 as RleValue>::try_unpack/value_len, <i64 as RleValue>::try_unpack/value_len", "mode": "complete", "bound": "all inputs of <= 11 bytes (one byte more than the longest encoding)"},
    "u06_narrow_unpack_total": {"crate": "hexane", "file": "rust/hexane/src/lib.rs", "fn": "<u32|usize|NonZeroU32 as RleValue>::try_unpack", "mode": "bounded", "bound": "all inputs of <= 6 bytes"},
    "u06_string_unpack_q": {"crate": "hexane", "file": "rust/hexane/src/lib.rs", "fn": "<String as RleValue>::try_unpack/unpack/value_len, <Vec<u8> as RleValue>::try_unpack/value_len", "mode": "bounded", "bound": "all inputs of <= 4 bytes", "timeout_s": 1200},
    "u06_string_unpack_t": {"crate": "hexane", "file": "rust/hexane/src/lib.rs", "fn": "<String as RleValue>::try_unpack/unpack/value_len", "mode": "bounded", "bound": "all inputs of <= 6 bytes", "tier": "thorough", "timeout_s": 3600},
    "u06_string_unpack_huge_len": {"crate": "hexane", "file": "rust/hexane/src/lib.rs", "fn": "<String|Vec<u8> as RleValue>::try_unpack/value_len", "mode": "bounded", "bound": "every length prefix > 16 (all u64) in front of a 12-byte buffer", "timeout_s": 1200},
    "u06_bundle_decoder_call_site": {"crate": "hexane", "file": "rust/hexane/src/rle/decoder.rs", "fn": "<RleDecoder as Iterator>::next as called from automerge storage/bundle/builder.rs (raw chunk bytes)", "mode": "bounded",
                                     "bound": "all value buffers of <= 2 bytes (KNOWN FINDING: fails)"},
    "u06_rle_segment_total_u64": {"crate": "hexane", "file": "rust/hexane/src/rle/decoder.rs", "fn": "RleDecoder::try_next_segment", "mode": "bounded", "bound": "all buffers of <= 11 bytes, one step", "timeout_s": 1200},
    "u06_rle_segment_total_i64": {"crate": "hexane", "file": "rust/hexane/src/rle/decoder.rs", "fn": "RleDecoder::try_next_segment", "mode": "bounded", "bound": "all 11-byte buffers, two steps (covers the i64::MIN run header)", "timeout_s": 1200},
    "u06_rle_segment_utf8": {"crate": "hexane", "file": "rust/hexane/src/rle/decoder.rs", "fn": "RleDecoder::<String>::try_next_segment", "mode": "bounded", "bound": "all 5-byte buffers, one step", "timeout_s": 1200},
    # ---- U07 autoserde
    "u07_map_announces_true_length": {"crate": "automerge", "file": "rust/automerge/src/autoserde.rs", "fn": "AutoSerdeMap::serialize", "mode": "bounded", "bound": "trait-contract instance: nested empty map inside a root of arbitrary length"},
    "u07_root_map_announces_its_length": {"crate": "automerge", "file": "rust/automerge/src/autoserde.rs", "fn": "AutoSerdeMap::serialize", "mode": "bounded", "bound": "trait-contract instance: empty root"},
    "u07_scalar_faithful": {"crate": "automerge", "file": "rust/automerge/src/autoserde.rs", "fn": "AutoSerdeVal::serialize (scalar arm), ScalarValue: Serialize", "mode": "complete",
                            "bound": "all Int / Uint / Timestamp / Counter / Boolean / Null values (loop-free); Str / Bytes / F64 / Unknown not covered"},
    "u07_seq_exports_winners": {"crate": "automerge", "file": "rust/automerge/src/autoserde.rs", "fn": "AutoSerdeSeq::serialize, AutoSerdeVal::serialize", "mode": "bounded",
                                "bound": "trait-contract instance: a one-element list whose position holds a conflict [loser, winner]"},
    # ---- U08 text width
    "u08_width_laws_q": {"crate": "automerge", "file": TYPES, "fn": "TextEncoding::width", "mode": "bounded", "bound": "all valid UTF-8 strings of <= 2 bytes", "timeout_s": 1500},
    "u08_width_laws_t3": {"crate": "automerge", "file": TYPES, "fn": "TextEncoding::width", "mode": "bounded", "bound": "all valid UTF-8 strings of <= 3 bytes", "tier": "thorough", "timeout_s": 3600},
    "u08_width_laws_t4": {"crate": "automerge", "file": TYPES, "fn": "TextEncoding::width", "mode": "bounded", "bound": "all valid UTF-8 strings of <= 4 bytes (every scalar value)", "tier": "thorough", "timeout_s": 7200},
    # ---- U02k parse combinators
    "u02k_length_prefixed_total": {"crate": "automerge", "file": "rust/automerge/src/storage/parse.rs", "fn": "length_prefixed", "mode": "bounded", "bound": "all inputs of <= 11 bytes, element parser take1", "timeout_s": 900},
    "u02k_apply_n_total": {"crate": "automerge", "file": "rust/automerge/src/storage/parse.rs", "fn": "apply_n", "mode": "bounded", "bound": "every count (all usize) over a 4-byte input, element parser take1 (unwind 8: the count is bounded by the input)", "timeout_s": 900},
    "u15_try_load_total": {"crate": "automerge", "file": "rust/automerge/src/op_set2/op_set/op_iter.rs", "fn": "OpId::try_load, ObjId::try_load, ElemId::try_load", "mode": "complete",
                           "bound": "all Option<u32 actor index> x Option<i64 counter> (loop-free)"},
    "u08_width_single_scalar": {"crate": "automerge", "file": TYPES, "fn": "TextEncoding::width", "mode": "complete", "timeout_s": 3000,
                                "bound": "every `char` as a one-scalar string, encodings UTF-8 / code point / UTF-16 (loops bounded by the 4-byte encoding); grapheme clusters not covered"},
    "u17_from_raw_string_valid": {"crate": "automerge", "file": "rust/automerge/src/op_set2/types.rs", "fn": "ScalarValue::from_raw (string arm)", "mode": "bounded",
                                  "bound": "all string values of <= 3 raw bytes, any declared metadata length"},
    "u17_from_raw_string_valid_t": {"crate": "automerge", "file": "rust/automerge/src/op_set2/types.rs", "fn": "ScalarValue::from_raw (string arm)", "mode": "bounded",
                                    "bound": "all string values of <= 4 raw bytes, any declared metadata length", "tier": "thorough"},
    "u15_raw_read_bytes": {"crate": "automerge", "file": "rust/automerge/src/columnar/encoding/raw.rs", "fn": "RawDecoder::read_bytes", "mode": "bounded",
                           "bound": "8-byte buffer, every offset inside it, every length < 2^60 (the range of a value-metadata length)"},
    # ---- U12 range normalisation
    "u12_normalize_range": {"crate": "automerge", "file": "rust/automerge/src/iter/list_range.rs", "fn": "normalize_range", "mode": "complete", "bound": "all pairs of Bound<usize> and all indexes < usize::MAX (loop-free)"},
    "u01_roundtrip_3": {"crate": "automerge", "file": BLOOM, "fn": "to_bytes, parse", "mode": "bounded", "bound": "3 entries (4 bytes of bits)", "tier": "thorough"},
}

GLOBAL_TRUSTED = [
    "Verus 0.2026.09.13 + Z3 (soundness of the verifier and of vstd's specs for Vec, slices, Option/Result, ranges)",
    "Kani 0.68 / CBMC 6.11 (soundness; bit-precise model of the compiled MIR)",
    "extractor rules (DESIGN 3.2): the drop/substitute table reported under coverage.extraction",
]
GLOBAL_ASSUMPTIONS = [
    "debug-profile semantics: arithmetic overflow is a panic (what the test suite runs under)",
    "no concurrency in the functions under contract",
    "termination is proved by Verus (decreases) but not by Kani",
]

PROPERTIES = {
    "C23": {
        "level": "proof",
        "verus": [("u01_bloom", ["default", "to_bytes", "parse", "get_probes", "set_bit", "add_hash", "contains_hash", "lemma_no_false_negative", "lemma_monotone_keeps_probes", "lemma_monotone_trans", "lemma_or_bit", "leb128_u32", "leb128_u64", "take_n"])],
        "kani": ["u01_get_bit_contract", "u01_bits_capacity_10", "u01_bits_capacity_total", "u01_parse_wf_quick", "u01_parse_wf_thorough",
                 "u01_add_contains_2x7", "u01_add_contains_3x0", "u01_add_contains_0x7", "u01_query_total", "u01_from_hashes_2",
                 "u01_roundtrip_1", "u01_roundtrip_3"],
        "not_under_contract": ["BloomFilter::from_hashes (generic ExactSizeIterator: only the bounded K harness)",
                               "BloomFilter::to_bytes / parse beyond the K bounds", "TryFrom<&[u8]> for BloomFilter (error formatting)"],
        "trusted": ["u32::from_le_bytes (std) behind the vf_u32_from_le_bytes wrapper, uninterpreted in the spec"],
        "assumptions": ["Bloom bit arrays are smaller than 2^28 bytes (BITS_LIMIT) so the u32 probe arithmetic cannot overflow"],
        "explanation": "Verus proves, for every hash, every bit array < 2^28 bytes and every probe count, the contracts of the real "
                       "get_probes/set_bit/add_hash/contains_hash and the induction lemma_no_false_negative over those contracts; "
                       "get_bit's assumed contract, the from_hashes bridge and the parse/to_bytes round trip are Kani stand-ins (bounded, listed).",
    },
}

PROPERTIES.update({
    "C04": {
        "level": "proof",
        "verus": [("u10_changes", ["transaction_args", "update_heads", "update_deps", "lemma_heads_preserved", "lemma_prefix_set_step"]), ("u16_autocommit", "*"),
                  ("u18_actor_table", ["remove_actor", "get_or_create_actor_index", "get_actor_index", "put_actor", "insert_actor", "rewrite_with_new_actor"])],
        "kani": [],
        "not_under_contract": ["AutoCommit::rollback, SyncWrapper::receive_sync_message and the Transactable methods of AutoCommit (closure with tuple-pattern parameter / trait-impl methods: outside this Verus)", "TransactionInner::commit (assumed contract: requires the document version its cached arguments were computed against)", "ChangeGraph::add_changes / add_nodes", "Automerge::isolate_actor", "get_or_create_actor_index", "seq_for_actor / max_op / get_hash / get_heads (assumed accessor contracts)", "loads"],
        "trusted": ["std BTreeSet/HashSet as mathematical sets (assumed stub contracts)", "<[T]>::to_vec / <[T]>::contains assume_specification", "Change accessors (hash, deps) as abstract fields"],
        "explanation": "Verus proves on the real text of Automerge::transaction_args that seq = seq_for_actor+1, start_op = max_op+1, isolated deps = the given heads, "
                       "non-isolated deps = current heads plus the actor's previous change without duplicate; (U18) the actor a change is attributed to -- the document's own cached actor index -- keeps naming the same actor id "
                       "through every insertion into and removal from the actor table; on the real AutoCommit methods (U16, ghost document version) that a lazily opened transaction is always "
                       "based on the current document state and scoped to the current isolation heads when it is committed, that every entry point that lets remote changes / actor changes in flushes it first, that flushing "
                       "never leaves isolation and moves the isolated view to the change just made, and that isolate(h) isolates at exactly h; and on the real ChangeGraph::update_heads / Automerge::update_deps that "
                       "heads' = (heads \\ deps) + {hash}, with lemma_heads_preserved showing this keeps 'heads = applied changes nobody depends on'. Callees are assumed contracts (listed).",
    },
    "C38": {
        "level": "proof",
        "verus": [("u10_changes", ["push", "new", "extend", "has_hash", "has_actor_seq", "is_empty", "transaction_args", "apply_changes_batch_log_patches"])],
        "kani": [],
        "not_under_contract": ["ChangeQueue::remove_actor_branch_from (closures over HashMap/VecDeque; assumed to keep the index invariant)", "ChangeQueue::pop_topo_sorted_ready (assumed to keep the index invariant)", "the `filter` adapter at the head of apply_changes_batch_log_patches (trusted wrapper matched on its exact text)", "BatchApply::apply", "ChangeGraph::add_changes seq assertion", "Automerge::seq_for_actor (assumed)"],
        "trusted": ["std HashSet as a mathematical set (assumed stub contracts)", "Change accessors (hash, actor_id, seq) as abstract fields"],
        "explanation": "Verus proves on the real ChangeBatch::push the index invariant (pairwise distinct (actor,seq), mirrored by both sets), rejection of a second change claiming a taken "
                       "(actor,seq) with the batch unchanged, and idempotence on equal hashes; ChangeQueue::has_actor_seq / has_hash against that invariant; Automerge::has_actor_seq == "
                       "(seq <= highest applied seq of the actor); on the real admission loop of Automerge::apply_changes_batch_log_patches that a batch is admitted only if none of its new changes claims an applied or queued "
                       "(actor, seq), and that the loop establishes the precondition of ChangeQueue::extend (so the queue's index invariant is never broken there); "
                       "and that transaction_args drops the conflicting queued branch for exactly (actor, seq) before returning.",
    },
    "C22": {
        "level": "proof",
        "verus": [("u37_readonly_sync", "*")],
        "kani": [],
        "not_under_contract": ["generate_sync_message (the second clause: the other peer still receives the read-only peer's changes)", "the multi-message exchange after switching back to read-write (third clause: 'eventually receives every change it skipped' is a liveness property of the protocol; "
                               "only its trigger -- set_read_only arms needs_reset -- is under contract)", "receive_sync_message (the public wrapper that decodes and calls receive_sync_message_inner)",
                               "the head-set iterator chains inside receive_sync_message_inner (trusted wrappers matched on their exact text; they take the document by shared reference)"],
        "trusted": ["Automerge as an opaque value whose equality is equality of the whole document; every callee other than load_incremental_log_patches takes &self (their signatures are restated in the environment)"],
        "assumptions": ["C22 is claimed for its first clause only, as a frame condition of one function; the two other clauses are protocol-level (not_under_contract)"],
        "explanation": "Verus proves on the real text of Automerge::receive_sync_message_inner: if the sync state is read-only on entry, the document on exit equals the document on entry, for every message "
                       "(changes present or not, any flags) and on the error exits as well -- the one mutating callee, load_incremental_log_patches, carries no postcondition, so the obligation is that it is unreachable "
                       "in that mode -- receiving never flips the mode, and a message carrying SYNC_RESET that is accepted leaves sent_hashes empty whatever else it says (the receiver forgets what it believes it sent). On the real State::set_read_only: the mode becomes the argument; leaving read-only mode arms needs_reset and keeps the peer's capabilities; "
                       "entering it keeps shared_heads / sent_hashes.",
    },
    "C29": {
        "level": "proof",
        "verus": [("u16_autocommit", ["ensure_transaction_open", "ensure_transaction_closed", "commit_with", "empty_change", "get_heads", "isolate", "integrate", "get_scope", "hydrate", "length", "length_at", "text", "text_at"])],
        "kani": [],
        "not_under_contract": ["what a clock-scoped read returns (the op set under a clock: Automerge::*_for(obj, clock); first clause); the other ~35 ReadDoc methods of AutoCommit (hydrate, length(_at), text(_at) are under contract; the rest are each a one-line `self.doc.x_for(.., self.get_scope(h))`) and all of Transaction's", "Automerge::transaction_at / isolate_actor and TransactionInner (assumed: transaction_args(heads) computes deps = heads; "
                               "insert_local_op's reset_top under scope)", "what integrate merges (third clause: the document after integrate equals the merge of the isolated changes)", "Transaction-level (non-AutoCommit) API"],
        "trusted": ["Automerge::transaction_args(heads) scopes the transaction to exactly `heads` (assumed contract; proved for its deps computation against the change graph accessors in U10)", "TransactionInner::commit returns the hash of the change it made, if any"],
        "assumptions": ["C29 is claimed for the AutoCommit-level bookkeeping of its second clause only: which heads an isolated transaction is scoped to and how the isolated view moves; the read semantics and the merge on integrate are not_under_contract"],
        "explanation": "Verus proves on the real AutoCommit methods, with a representation invariant over ghost state: after isolate(h) the document is isolated at exactly h, for every h; an open transaction is always scoped to the CURRENT "
                       "isolation heads (it is opened with transaction_args(isolation) and every method that could change the heads flushes it first); committing inside isolation moves the isolated view to exactly the change just "
                       "committed (so the isolated chain is linear and later transactions depend on it alone) and never leaves or enters isolation; get_heads reports the isolation heads while isolated; integrate ends isolation. "
                       "On the real AutoCommit::get_scope: the clock a read is scoped to is a function of (heads argument, isolation, open transaction) -- while isolated it is never 'unscoped' -- and "
                       "ReadDoc::hydrate, length, length_at, text, text_at of AutoCommit read through exactly that scope (D30 was hydrate).",
    },
    "C10": {
        "level": "proof",
        "verus": [("u03_chunk", "*"), ("u24_changeparse", ["parse_following_header", "verify_ops", "actor_id", "lemma_contk"])],
        "kani": ["u03_leb128_writer_matches_parser", "u03_header_parse_q", "u03_header_parse_t", "u03_header_roundtrip_0", "u03_header_roundtrip_3", "u03_checksum_valid"],
        "not_under_contract": ["ChangeCollector (rebuilding changes from columns)", "get_changes ordering", "Change::raw_bytes bookkeeping", "sha2::Sha256 (uninterpreted)"],
        "trusted": ["sha2::Sha256 as an uninterpreted function of the bytes fed to it", "leb128 crate writer contract (backed by K harness u03_leb128_writer_matches_parser for all u64)"],
        "explanation": "U24: the real Change::parse_following_header reads every scalar field of a change chunk (dependencies, actor, seq, start op, SIGNED timestamp, message) with the decoder of its type at the offset "
                       "the preceding fields leave, keeps the header it is given and the whole input as the chunk bytes -- the fields a Change reports are functions of the hashed bytes. "
                       "Verus proves on the real text of storage::chunk::hash that the hash is SHA-256 over type byte ++ LEB128(len) ++ data (every byte in the preimage); Kani shows the header is "
                       "canonical (re-encoding a parsed header reproduces the wire bytes), so the hashed length is the wire length. The rest of C10 (change reconstruction, get_changes order) is not under contract.",
    },
    "C13": {
        "level": "proof",
        "verus": [("u02_parse", ["take_1", "take_n", "take_4", "take1", "take4", "rest", "take_rest", "leb128_u64", "leb128_u32", "new", "lift", "split", "truncate", "skip", "reset", "is_empty"]),
                  ("u13_load", ["load_changes", "reset", "is_empty"]),
                  ("u14_loadopts", ["load_with_options_and_mark_validation"]), ("u20_chunkparse", ["parse", "data_bytes", "bytes"]), ("u22_loadnext", "*"),
                  ("u24_changeparse", ["parse_following_header", "verify_ops", "actor_id", "lemma_contk"])],
        "kani": ["u03_header_parse_q", "u03_header_parse_t", "u03_header_parse_long"],
        "not_under_contract": ["one exit of load_next_change (document chunk that fails to reconstruct: this Verus loses a `&mut` parameter at a `return` inside a match with a guarded arm)", "chunk bodies (Document::parse, Change::parse_following_header, BundleStorage::parse_following_header: assumed stubs), Document::reconstruct, Change::new_from_unverified (assumed stubs)",
                               "Automerge::apply_changes (assumed: appends the given changes)"],
        "assumptions": ["input slices are shorter than usize::MAX (Input::wf)"],
        "explanation": "Verus proves for inputs of ANY length that take_n/take_1/take_4 return Incomplete exactly when fewer bytes remain than asked (never Ok, never a panic) and that leb128_u64 "
                       "returns Incomplete exactly when the input ends inside an encoding; Kani shows for every header shape that every strict prefix of header++data makes Header::parse return Incomplete; "
                       "Verus proves on the real load loop storage::load::load_changes (against an assumed contract of load_next_change) that the result is Complete exactly when the input is a sequence of acceptable "
                       "chunks with nothing left over, and that the changes handed on are those of every chunk fully inside the input, in order; and on the real Automerge::load_with_options_and_mark_validation "
                       "(against an assumed environment, two expressions substituted by trusted wrappers) that a strict load fails unless the tail loaded completely -- whatever the verification mode or the first chunk's kind -- "
                       "and that a lenient load applies every change loaded before the broken chunk (the obligation that reports D8).",
    },
    "C14": {
        "level": "proof",
        "verus": [("u03_chunk", "*"), ("u14_loadopts", ["load_with_options_and_mark_validation"]), ("u20_chunkparse", ["parse", "data_bytes", "bytes"]), ("u22_loadnext", "*")],
        "kani": ["u03_checksum_valid", "u03_chunktype_codes", "u03_header_parse_q", "u03_header_parse_t", "u03_header_parse_long"],
        "not_under_contract": ["Document/Change/Bundle body parsers (assumed: the body keeps the header it is given -- a body parser that re-derives its header is NOT seen)", "SHA-256 collision resistance (cryptographic assumption)"],
        "trusted": ["sha2::Sha256 uninterpreted"],
        "explanation": "Structural part only: load_with_options returns a document only if the first chunk's checksum_valid() held (V, real function); Chunk::parse (V, real function, U20) hands every body parser the header "
                       "read from the file, rejects data left over inside a chunk, keeps the file's checksum on a compressed change and leaves exactly the input behind header + data; Chunk::checksum_valid is true only if the body's checksum "
                       "matches, for every chunk variant (V); Header::checksum_valid compares all four checksum bytes with the first four hash bytes (complete over all values); the magic and type bytes are checked by Header::parse; "
                       "every wire byte outside magic/checksum is in the SHA-256 preimage (Verus, hash) and the parsed length is the wire length (canonical header).",
    },
    "C30": {
        "level": "proof",
        "verus": [("u04_ids", ["exid_to_opid", "exid_to_obj", "get_actor_safe", "new", "remove_actor", "rewrite_with_new_actor", "with_new_actor", "without_actor", "actor"]),
                  ("u16_autocommit", ["ensure_transaction_open", "ensure_transaction_closed", "commit_with", "empty_change", "set_actor", "load_incremental", "apply_changes", "apply_changes_batch", "merge", "save_with_options", "fork"]),
                  ("u18_actor_table", "*"), ("u23_exid_order", "*")],
        "kani": ["u04_opid_order", "u04_opid_actor_shift", "u04_opid_new"],
        "not_under_contract": ["<[ActorId]>::binary_search (std contract assumed; OpSet::lookup_actor is proved against it in U18)", "OpSet::rewrite_with_new_actor / ChangeGraph::insert_actor column rewrites (assumed: shift exactly the stored indices >= idx)", "get_obj_meta", "PatchLog::migrate_actors loop"],
        "assumptions": ["a document has at most u32::MAX actors"],
        "explanation": "Verus proves on the real Automerge::exid_to_opid that an id resolves to an op id whose actor IS the id's actor whether the index hint is right, stale or out of range, and that an unknown "
                       "actor gives Err; the actor-table shifts OpId::with_new_actor / without_actor are proved exactly (Verus) and order/identity preserving and mutually inverse (Kani, complete); "
                       "Event::with_new_actor / without_actor re-index EVERY id-carrying pending patch event and nothing else; Actor::{remove_actor, rewrite_with_new_actor} keep the document's cached actor index on the same actor; "
                       "U18: on the real Automerge::{insert_actor, put_actor, put_actor_ref} and OpSet::insert_actor, inserting an actor into the sorted table keeps it sorted and every stored actor index "
                       "(op columns, change graph, the document's own cached index; ghost sequences) denotes the SAME actor id afterwards; an actor already present moves nothing. "
                       "U16: no AutoCommit entry point that can shift the actor table (load_incremental, apply_changes*, merge, set_actor, save) runs while a transaction holding a cached actor index is open, and a fork never inherits one.",
    },
    "C37": {
        "level": "proof",
        "verus": [("u04_ids", ["exid_to_opid", "exid_to_obj", "op_cursor_to_opid", "new", "get_actor_safe"]), ("u16_autocommit", ["ensure_transaction_open", "commit_with", "empty_change", "ensure_transaction_closed"]), ("u19_import", "*"),
                  ("u21_patchlog_tx", "*"), ("u26_skipper", "*"), ("u27_hydrate_list", "*"), ("u38_seek_opid", "*")],
        "kani": ["u04_opid_new", "u12_normalize_range", "u08_width_single_scalar", "u04_changehash_try_from_slice"],
        "not_under_contract": ["every other public entry point", "the ~100 internal OpId::new call sites", "hydrate::Value::apply (path descent), hydrate::Map::apply"],
        "assumptions": ["a document has at most u32::MAX actors"],
        "explanation": "For the id/cursor argument conversions and list-range normalisation only: normalize_range is proved (Kani, complete over all pairs of bounds) never to panic and to return exactly "
                       "the caller's range; OpId::new's two unwrap()s become its precondition (verified on its real body), and Verus proves every call from exid_to_opid and "
                       "op_cursor_to_opid establishes it for EVERY ExId / cursor value a caller can construct or decode. "
                       "U27: hydrate::List::apply and hydrate::Text::apply (behind the public hydrate::Value::apply_patches) return for ANY patch action -- every index handed to the sequence tree / text value is in range, no arm panics (D20, D21 fail here before their repair). "
                       "U26: the visibility skipper behind map_range / list_range / keys / values (BoolColumnSkipper::next, shift_next) never overflows or underflows for ANY range -- reversed ones included -- and any runs the column yields. "
                       "U19: Automerge::import_obj is total on every &str (no unwrap on hex / integer conversion, string slices on char boundaries, table index in range; the str primitives are trusted wrappers). "
                       "U21: the real PatchLog::begin_transaction's assert! (no speculative actor pending) is its precondition and the real finish_transaction always clears it -- the two contracts U16 assumes. "
                       "U16: AutoCommit's `.unwrap()` of the just-opened transaction and the `assert!` in PatchLog::begin_transaction (no speculative actor pending) cannot fire from ensure_transaction_open / commit_with / empty_change.",
    },
})

PROPERTIES.update({
    "C15": {
        "level": "proof",
        "verus": [("u02_parse", "*"), ("u01_bloom", ["parse", "get_probes", "contains_hash", "add_hash", "set_bit"]), ("u04_ids", ["exid_to_opid", "op_cursor_to_opid", "new"]),
                  ("u04c_codecs", ["try_from", "parse_0"]), ("u06v_hexane_str", "*"), ("u15_colids", ["try_next", "try_load", "new", "root", "from"]), ("u19_import", "*"), ("u28_valuemeta", "*"), ("u29_hexane_prefix", "*"), ("u30_legacy_rle", "*"), ("u32_decodable_alloc", "*"), ("u34_delta_agg", "*"), ("u35_rle_track", "*"), ("u36_bool_load", "*"), ("u24_changeparse", ["verify_ops", "parse_following_header", "actor_id"])],
        "kani": ["u04_changehash_try_from_slice", "u15_try_load_total", "u15_raw_read_bytes", "u17_from_raw_string_valid", "u02k_length_prefixed_total", "u02k_apply_n_total", "u06_codec_reads_agree", "u01_parse_wf_quick", "u01_parse_wf_thorough", "u01_query_total", "u03_header_parse_q", "u03_header_parse_t", "u03_chunktype_codes",
                 "u04_exid_try_from_total_q", "u04_exid_try_from_total_t", "u04_cursor_from_str_total_q",
                 "u05_flags_parse_bytes",
                 "u06_int_unpack_total", "u06_narrow_unpack_total", "u06_string_unpack_q", "u06_string_unpack_t", "u06_string_unpack_huge_len",
                 "u06_rle_segment_total_u64", "u06_rle_segment_total_i64", "u06_rle_segment_utf8", "u06_bundle_decoder_call_site"],
        "not_under_contract": ["APPLYING decoded changes (BatchApply; a well-formed but semantically invalid change panics there: DESIGN section 7)", "Automerge::load / load_incremental / rescue", "Change::from_bytes and the change/document/bundle column decoders", "sync::Message::decode with changes, State::decode",
                               "ActorId / ChangeHash hex parsing", "the RLE/delta column decoders feeding ObjIdIter/KeyIter/OpIdListIter (arbitrary sources in the Verus unit)", "import / import_obj (str code; a panic there, D9, was repaired but is not decided by this check)",
                               "parse combinators map/tuple2/apply_n/length_prefixed/range_of (generic FnMut parsers)", "hexane Column::load, slabs, delta/bool/raw decoders"],
        "assumptions": ["input slices shorter than usize::MAX", "Bloom bit arrays < 2^28 bytes"],
        "explanation": "Panic-freedom and termination of the LEAF decoders only: Verus proves for inputs of any length that the parse.rs/leb128.rs functions, the Bloom query path and the id/cursor "
                       "resolution never panic, overflow or index out of range; the id-column iterators of change chunks (ObjIdIter/KeyIter/OpIdListIter::try_next) and the id loaders OpId/ObjId/ElemId::try_load meet OpId::new's precondition for every value untrusted columns can decode to; "
                       "Kani proves totality of BloomFilter::parse, Header::parse, ExId/Cursor byte and string decoders, MessageFlags::parse_bytes, "
                       "the hexane varint/value decoders and one RLE segment step within the stated input-length bounds.",
    },
    "C17": {
        "level": "proof",
        "verus": [("u02_parse", ["take_n", "take_1", "take_4", "take1", "take4", "rest", "take_rest", "leb128_u64", "leb128_i64", "leb128_u32", "nonzero_leb128_u64", "length_prefixed_bytes", "change_hash", "utf_8"]),
                  ("u01_bloom", ["parse", "default", "get_probes", "contains_hash", "add_hash"]), ("u28_valuemeta", "*"), ("u32_decodable_alloc", "*")],
        "kani": ["u01_parse_wf_quick", "u01_parse_wf_thorough", "u01_bits_capacity_total", "u06_string_unpack_huge_len", "u02k_length_prefixed_total", "u02k_apply_n_total",
                 "u01_add_contains_3x0", "u01_query_total"],
        "not_under_contract": ["ChangeCollector / OpEncoderStrategy::try_new (OutOfMemory guard)", "document reconstruct", "parse::length_prefixed(g) / apply_n with generic g (allocation sized by the wire count)",
                               "RawColumns::parse", "sync message processing"],
        "assumptions": ["resource use is expressed as bounds on the values that size allocations and loops; wall-clock and heap are not measured"],
        "explanation": "No length/count field decoded by the functions under contract reaches an allocation size or loop bound unchecked: take_n and friends return sub-slices of the input (nothing allocated, "
                       "Ok only if the bytes are there); LEB128 decoding consumes at most 10 bytes; a Bloom query allocates and iterates at most PROBE_LIMIT (1024) probes for every filter satisfying the "
                       "invariant wf, which BloomFilter::parse establishes for every input (Kani, bounded input length; the probe-count check itself is length independent); "
                       "the length-prefixed byte strings of a change chunk's legacy column decoders (<Vec<u8> as Decodable>::decode, U32) allocate at most 1 GiB whatever length the wire declares.",
    },
    "C19": {
        "level": "proof",
        "verus": [("u04_ids", ["exid_to_opid", "op_cursor_to_opid", "get_actor_safe", "new"]), ("u25_syncstate", ["encode", "parse", "decode", "lemma_state_roundtrip"]),
                  ("u23_exid_order", "*"),
                  ("u04c_codecs", ["to_bytes", "try_from", "parse_0", "lemma_exid_roundtrip", "lemma_cursor_roundtrip", "leb128_u64", "take_n", "take1", "take_1",
                                   "lemma_dec_enc", "lemma_lebk", "lemma_decode_of_encode", "lemma_shape_is_canonical", "lemma_leb_shape", "lemma_leb_value", "lemma_leb_len_u64",
                                   "lemma_shape_unique", "lemma_valk_shift", "lemma_valk_prefix", "lemma_step", "lemma_step_top", "lemma_or_add", "lemma_or_add_top", "lemma_p128_shift"]),
                  ("u01_bloom", ["to_bytes", "parse", "default", "leb128_u32"]),
                  ("u05v_sync_flags", ["parse", "encode", "new", "contains", "set"])],
        "kani": ["u04_changehash_try_from_slice", "u04_actorid_bytes_roundtrip", "u03_leb128_writer_matches_parser", "u05_flags_roundtrip", "u05_flags_set_contains", "u05_flags_parse_bytes", "u05_encode_many_prefix", "u05_message_encode_skeleton", "u01_roundtrip_1", "u01_roundtrip_3",
                 "u04_exid_try_from_total_q", "u06_leb_unsigned_roundtrip", "u06_leb_signed_roundtrip"],
        "not_under_contract": ["Cursor::from_str / Display and ExId Display / import_obj (string forms)", "sync::Message::encode/decode, State::encode/decode",
                               "ActorId / ChangeHash hex round trips", "OpSet::lookup_actor (assumed binary search)"],
        "explanation": "Resolution: Verus proves exid_to_opid / op_cursor_to_opid return the id's OWN actor under any actor numbering. Encodings: Verus proves on the real ExId::to_bytes/try_from and "
                       "Cursor::to_bytes/try_from/parse_0 that the encoder writes exid_enc/cursor_enc and the decoder computes exactly the functional spec exid_dec/cursor_dec, and the lemmas "
                       "exid_dec(exid_enc(x)) == x, cursor_dec(cursor_enc(c)) == c -- for actor ids of ANY length and all 64-bit counters -- on top of the LEB128 layer (leb128_u64 accepts exactly the canonical "
                       "encodings and returns their value). BloomFilter::to_bytes/parse wire form (V), MessageFlags (K, all values), hexane varints (K, all u64/i64), leb128 crate writer vs parser (K, all u64). "
                       "Message/State codecs and the string forms are NOT under contract.",
    },
    "C32": {
        "level": "proof",
        "verus": [],
        "kani": ["u07_scalar_faithful", "u07_seq_exports_winners", "u07_map_announces_true_length", "u07_root_map_announces_its_length"],
        "not_under_contract": ["AutoSerdeVal container arms beyond the instances, Str/Bytes/F64 scalars", "ReadDoc::get/keys/length/text of a real document (winners only, text as strings)", "maps with >= 1 entry (Keys cannot be built outside a document)"],
        "explanation": "Two leaves. (1) complete: AutoSerdeVal exports every Int/Uint/Timestamp/Counter/Boolean/Null scalar as itself (which serde primitive, which value) for ALL values. (2) BOUNDED (maps with zero entries): AutoSerdeMap::serialize is verified against the ReadDoc / Serializer TRAIT CONTRACTS with a harness-local ReadDoc of arbitrary reported lengths and a recording Serializer: the announced map "
                       "length equals the number of entries written and doc.length(the map being serialized). Complete for the explored contract instance (empty map nested in a root of any length).",
    },
    "C35": {
        "level": "proof",
        "verus": [("u06v_hexane_str", "*"), ("u29_hexane_prefix", "*"), ("u31_hexane_bool", "*"), ("u33_delta_nth", "*"), ("u34_delta_agg", "*"), ("u35_rle_track", "*"), ("u36_bool_load", "*")],
        "kani": ["u06_codec_reads_agree", "u06_signed_bytes_is_consumed", "u06_leb_unsigned_roundtrip", "u06_leb_signed_roundtrip", "u06_int_unpack_total", "u06_narrow_unpack_total", "u06_string_unpack_q", "u06_string_unpack_t",
                 "u06_string_unpack_huge_len", "u06_rle_segment_total_u64", "u06_rle_segment_total_i64", "u06_rle_segment_utf8"],
        "not_under_contract": ["Column::load / load_with / save / save_to (the generic ColumnLoadIter::finalize_with, Column::fill)", "slabs, B-tree index, splice, encoder.rs",
                               "RLE loader apart from its per-segment bookkeeping (Slab::copy_from, validate_after, rle_validate_encoding)", "bool encoding apart from BoolDecoder, BoolLoadIter::{new, cut_slab, try_next_run, finalize} and BoolEncoding::fill (merge, splice)",
                               "delta encoding apart from the loader's slab aggregate and DeltaDecoder::nth (domain check in DeltaColumn::load_with, save_to_unless)", "value pack() into Vec"],
        "explanation": "Kani proves on the real hexane crate: the varint codec round-trips for ALL u64 and i64 with the exact encoded length (complete); integer value decoders are total on every input up to 11 bytes "
                       "(complete for their 10-byte maximum width); string/bytes decoders and one RLE segment step are total within stated buffer bounds. "
                       "Verus proves on the extracted text, for every input: the loaders' folds over untrusted run counts -- RLE per-segment bookkeeping (saturating item count), prefix and delta slab weights "
                       "(exact or error), the bool column loader (no out-of-range read, termination, every slab starts on a false run) -- the streaming bool decoder under the validated-slab precondition, "
                       "the u32 prefix sums (saturating) and DeltaDecoder::nth (skips exactly n). Column-level save/load round trips are not under contract.",
    },
    "C39": {
        "level": "proof",
        "verus": [("u02_parse", ["utf_8", "take_n"]), ("u06v_hexane_str", "*")],
        "kani": ["u06_codec_reads_agree", "u06_signed_bytes_is_consumed", "u06_string_unpack_q", "u06_string_unpack_t", "u06_rle_segment_utf8", "u17_from_raw_string_valid", "u17_from_raw_string_valid_t"],
        "not_under_contract": ["the global invariant 'every unchecked unpack is dominated by a checked pass over the same bytes' (hexane columns, bundles)", "BundleStorage::verify", "Column::load validation walk", "change_graph / columns.rs string reads"],
        "trusted": ["std::str::from_utf8 / String::from_utf8 validators (uninterpreted `valid_utf8` in the Verus unit)"],
        "explanation": "Verus proves parse::utf_8 only ever builds a String from bytes the std validator accepted (any length); on the real hexane <String as RleValue>::{try_unpack, unpack, value_len} Verus proves, for buffers of ANY length "
                       "and any codec satisfying the (assumed, Kani-backed for Leb128) Codec contract, that the checked decoder yields only valid UTF-8 from inside the buffer and that the precondition of the unsafe "
                       "from_utf8_unchecked in the UNCHECKED unpack holds on every buffer the checked decoder accepts, with the same result -- the soundness condition of the unsafe fast path. Kani repeats it bit-precisely within a bound.",
    },
})

DOC = "no whole-document verification is within reach: Kani ICEs on any harness that builds an Automerge document and Verus cannot take the op-set engine (iterator adapters, closures, hexane columns); "
NOT_APPLICABLE = {
    "C01": DOC + "convergence relates whole documents over all delivery orders",
    "C02": DOC + "needs an interpretation of whole histories over the op set",
    "C03": DOC + "TransactionInner operates on &mut Automerge",
    "C05": "Kahn release / missing-deps closure are HashMap/VecDeque/iterator code over Change values: out of reach of both verifiers",
    "C06": DOC + "the one error-path frame within reach (ChangeBatch::push) is proved under C38",
    "C07": DOC + "clock-scoped walks over the op set",
    "C08": DOC + "patch generation is spread over op-set iteration; no leaf contract carries the statement",
    "C09": DOC + "same as C08",
    "C11": DOC + "document/column encoders need hexane columns and a document",
    "C12": DOC + "load_incremental/save_after need a document",
    "C16": DOC + "document-level consistency",
    "C18": "change columns/bundles need hexane columns (CBMC > 10 min at 3 elements); only the chunk header is within reach and is used under C10/C14",
    "C20": "schedule-quantified protocol property over two documents; the sync state machine sits in iterator/HashSet code over documents",
    "C21": "same as C20 with several peers",
    "C24": "index consistency through edits needs documents (op-set text index); the only leaf within reach, TextEncoding::width, could be checked only as a BOUNDED Kani stand-in (all UTF-8 strings <= 2..4 bytes, "
           "harness u08_width_laws_* kept in kani/automerge/src__types.rs) that costs ~8 min per run whatever the bound and catches none of the realistic breakages of this property (grapheme rules, expose/seq_length widths): withdrawn as DESIGN.md allowed",
    "C25": "MarkStateMachine sits on Arc<BTreeMap<SmolStr,ScalarValue>> (CBMC blow-up, not Verus-able) and needs documents",
    "C26": DOC + "cursor resolution walks the op set",
    "C27": "Myers diff kernel: CBMC does not finish 2x2 inputs in 10 min, Verus cannot take the generic Index operands/iterator adaptors; update_object is document level",
    "C28": DOC + "rollback rewrites the op set",
    "C31": "whole-history transformation",
    "C33": "end-to-end through AutoCommit, save, load and the CLI",
    "C34": "slab/B-tree structures exceed CBMC at 3 elements and are not Verus-able",
    "C36": "FFI sequences with heap ownership across calls; neither tool models the C side, and the Rust side needs documents",
    "C40": DOC + "string migration rewrites a loaded document",
}

# planned claims whose units are not built yet: listed as not applicable until their check exists
_PENDING = "planned at contract level (DESIGN.md section 6) but the check is not built yet, so it is not claimed"
for _p in []:
    if _p not in PROPERTIES:
        NOT_APPLICABLE[_p] = _PENDING
