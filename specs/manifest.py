"""Spec manifest: units, Kani harnesses (with their declared completeness/bounds) and the mapping
from properties to the obligations that decide them.  A run that cannot find one of the names listed
here is a tool failure (exit 2)."""

UNITS = {
    "u01_bloom": {"verus": "specs/u01_bloom.vt.rs"},
    "u02_parse": {"verus": "specs/u02_parse.vt.rs"},
}

BLOOM = "rust/automerge/src/sync/bloom.rs"

# mode: complete  -> loop-free or width-bounded, full input domain: counted as discharged obligation
#       bounded   -> stand-in within the stated bound: listed separately, never counted as proved
HARNESSES = {
    "u01_get_bit_contract": {"crate": "automerge", "file": BLOOM, "fn": "get_bit", "mode": "bounded",
                             "bound": "bit arrays of 0,1,2,4 bytes; complete over every usize probe and every byte value (get_bit is one `get` + one mask: length-generic)",
                             "backs": "u01_bloom/get_bit (assumed external_body contract in the Verus unit)", "warm": True},
    "u01_bits_capacity_10": {"crate": "automerge", "file": BLOOM, "fn": "bits_capacity", "mode": "complete",
                             "bound": "all u32 entry counts at BITS_PER_ENTRY=10 (loop-free f64 arithmetic)"},
    "u01_bits_capacity_total": {"crate": "automerge", "file": BLOOM, "fn": "bits_capacity", "mode": "complete",
                                "bound": "all u32 x u32 (loop-free): no panic, result <= 2^61"},
    "u01_parse_wf_quick": {"crate": "automerge", "file": BLOOM, "fn": "parse", "mode": "bounded", "bound": "all inputs of <= 6 bytes"},
    "u01_parse_wf_thorough": {"crate": "automerge", "file": BLOOM, "fn": "parse", "mode": "bounded", "bound": "all inputs of <= 10 bytes", "tier": "thorough"},
    "u01_add_contains_2x7": {"crate": "automerge", "file": BLOOM, "fn": "add_hash, contains_hash, get_probes, set_bit", "mode": "bounded", "bound": "2-byte bit array, 7 probes, symbolic contents and hash"},
    "u01_add_contains_3x0": {"crate": "automerge", "file": BLOOM, "fn": "add_hash, contains_hash, get_probes", "mode": "bounded", "bound": "3-byte bit array, wire probe count 0"},
    "u01_add_contains_0x7": {"crate": "automerge", "file": BLOOM, "fn": "add_hash, contains_hash, get_probes", "mode": "bounded", "bound": "zero-bit filter"},
    "u01_query_total": {"crate": "automerge", "file": BLOOM, "fn": "contains_hash, get_probes", "mode": "bounded", "bound": "shapes (0B,7p) (0B,0p) (1B,1p) (2B,7p), symbolic contents"},
    "u01_from_hashes_2": {"crate": "automerge", "file": BLOOM, "fn": "from_hashes", "mode": "bounded", "bound": "2 symbolic hashes"},
    "u01_roundtrip_1": {"crate": "automerge", "file": BLOOM, "fn": "to_bytes, parse", "mode": "bounded", "bound": "1 entry (2 bytes of bits), symbolic bits, probes <= 255"},
    "u01_roundtrip_3": {"crate": "automerge", "file": BLOOM, "fn": "to_bytes, parse", "mode": "bounded", "bound": "3 entries (4 bytes of bits)", "tier": "thorough"},
}

GLOBAL_TRUSTED = [
    "Verus 0.2026.09.13 + Z3 (soundness of the verifier and of vstd's specs for Vec, slices, Option/Result, ranges)",
    "Kani 0.68 / CBMC 6.11 (soundness; bit-precise model of the compiled MIR)",
    "extractor rules (DESIGN 3.2): the drop/substitute table reported under coverage.extraction",
]
GLOBAL_ASSUMPTIONS = [
    "debug-profile semantics: arithmetic overflow is a panic (what the test suite runs under)",
    "no concurrency in the functions under contract",
    "termination is proved by Verus (decreases) but not by Kani",
]

PROPERTIES = {
    "C23": {
        "level": "proof",
        "verus": [("u01_bloom", "*")],
        "kani": ["u01_get_bit_contract", "u01_bits_capacity_10", "u01_bits_capacity_total", "u01_parse_wf_quick", "u01_parse_wf_thorough",
                 "u01_add_contains_2x7", "u01_add_contains_3x0", "u01_add_contains_0x7", "u01_query_total", "u01_from_hashes_2",
                 "u01_roundtrip_1", "u01_roundtrip_3"],
        "not_under_contract": ["BloomFilter::from_hashes (generic ExactSizeIterator: only the bounded K harness)",
                               "BloomFilter::to_bytes / parse beyond the K bounds", "TryFrom<&[u8]> for BloomFilter (error formatting)"],
        "trusted": ["u32::from_le_bytes (std) behind the vf_u32_from_le_bytes wrapper, uninterpreted in the spec"],
        "assumptions": ["Bloom bit arrays are smaller than 2^28 bytes (BITS_LIMIT) so the u32 probe arithmetic cannot overflow"],
        "explanation": "Verus proves, for every hash, every bit array < 2^28 bytes and every probe count, the contracts of the real "
                       "get_probes/set_bit/add_hash/contains_hash and the induction lemma_no_false_negative over those contracts; "
                       "get_bit's assumed contract, the from_hashes bridge and the parse/to_bytes round trip are Kani stand-ins (bounded, listed).",
    },
}

DOC = "no whole-document verification is within reach: Kani ICEs on any harness that builds an Automerge document and Verus cannot take the op-set engine (iterator adapters, closures, hexane columns); "
NOT_APPLICABLE = {
    "C01": DOC + "convergence relates whole documents over all delivery orders",
    "C02": DOC + "needs an interpretation of whole histories over the op set",
    "C03": DOC + "TransactionInner operates on &mut Automerge",
    "C05": "Kahn release / missing-deps closure are HashMap/VecDeque/iterator code over Change values: out of reach of both verifiers",
    "C06": DOC + "the one error-path frame within reach (ChangeBatch::push) is proved under C38",
    "C07": DOC + "clock-scoped walks over the op set",
    "C08": DOC + "patch generation is spread over op-set iteration; no leaf contract carries the statement",
    "C09": DOC + "same as C08",
    "C11": DOC + "document/column encoders need hexane columns and a document",
    "C12": DOC + "load_incremental/save_after need a document",
    "C16": DOC + "document-level consistency",
    "C18": "change columns/bundles need hexane columns (CBMC > 10 min at 3 elements); only the chunk header is within reach and is used under C10/C14",
    "C20": "schedule-quantified protocol property over two documents; the sync state machine sits in iterator/HashSet code over documents",
    "C21": "same as C20 with several peers",
    "C22": "the read-only guard sits in receive_sync_message_inner (document + iterator chains); only State::set_read_only is a leaf",
    "C25": "MarkStateMachine sits on Arc<BTreeMap<SmolStr,ScalarValue>> (CBMC blow-up, not Verus-able) and needs documents",
    "C26": DOC + "cursor resolution walks the op set",
    "C27": "Myers diff kernel: CBMC does not finish 2x2 inputs in 10 min, Verus cannot take the generic Index operands/iterator adaptors; update_object is document level",
    "C28": DOC + "rollback rewrites the op set",
    "C29": DOC + "isolation scopes reads by clock over the op set",
    "C31": "whole-history transformation",
    "C33": "end-to-end through AutoCommit, save, load and the CLI",
    "C34": "slab/B-tree structures exceed CBMC at 3 elements and are not Verus-able",
    "C36": "FFI sequences with heap ownership across calls; neither tool models the C side, and the Rust side needs documents",
    "C40": DOC + "string migration rewrites a loaded document",
}

# planned claims whose units are not built yet: listed as not applicable until their check exists
_PENDING = "planned at contract level (DESIGN.md section 6) but the check is not built yet, so it is not claimed"
for _p in ["C04", "C10", "C13", "C14", "C15", "C17", "C19", "C24", "C30", "C32", "C35", "C37", "C38", "C39"]:
    if _p not in PROPERTIES:
        NOT_APPLICABLE[_p] = _PENDING
