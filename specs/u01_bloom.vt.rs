#![feature(allocator_api)]
// U01 bloom -- rust/automerge/src/sync/bloom.rs  (engine V)
use vstd::prelude::*;
use core::num::NonZeroUsize;
use std::num::NonZeroU64;
use std::convert::TryInto;
verus! {

// the parser layer BloomFilter::parse is built on: the REAL functions with their verified contracts
//@ include u02_parse.vt.rs

/// `parse::` paths of bloom.rs resolve to the items above
pub mod parse {
    pub use super::{Input, ParseResult, ParseError, leb128_u32, take_n};
    pub use super::leb128;
}

pub mod bloom {
use super::*;
use vstd::prelude::*;

//@ item rust/automerge/src/sync/bloom.rs | struct BloomFilter
//@ item rust/automerge/src/sync/bloom.rs | const BITS_PER_ENTRY
//@ item rust/automerge/src/sync/bloom.rs | const NUM_PROBES
//@ item rust/automerge/src/sync/bloom.rs | const MAX_PROBES
//@ item rust/automerge/src/sync/bloom.rs | enum ParseError
// `#[from]` of thiserror (dropped by the extractor) generates this conversion:
impl vstd::std_specs::convert::FromSpecImpl<parse::leb128::Error> for ParseError {
    open spec fn obeys_from_spec() -> bool { true }
    open spec fn from_spec(e: parse::leb128::Error) -> ParseError { ParseError::Leb128(e) }
}
impl From<parse::leb128::Error> for ParseError { fn from(e: parse::leb128::Error) -> (r: Self) { ParseError::Leb128(e) } }

/// std: `Vec::extend(&Vec<T>)` appends the items of the argument (ASSUMED; vstd has no spec for Extend)
pub uninterp spec fn iter_items<I, T>(it: I) -> Seq<T>;
pub assume_specification<'a, T: Copy + 'a, A: core::alloc::Allocator, I: IntoIterator<Item = &'a T>>[ <Vec<T, A> as Extend<&'a T>>::extend::<I> ](v: &mut Vec<T, A>, iter: I)
    ensures final(v)@ == old(v)@ + iter_items::<I, T>(iter);
#[verifier::external_body]
pub broadcast proof fn axiom_iter_items_vec_ref<T>(v: &Vec<T>) ensures #[trigger] iter_items::<&Vec<T>, T>(v) == v@ {}

/// bits_capacity is f64 arithmetic: ASSUMED total with an uninterpreted result
/// (Kani: u01_bits_capacity_total / _10 prove totality for all u32 x u32 and exactness at 10 bits per entry)
pub uninterp spec fn cap(n: u32, b: u32) -> usize;
#[verifier::external_body]
fn bits_capacity(num_entries: u32, num_bits_per_entry: u32) -> (r: usize) ensures r == cap(num_entries, num_bits_per_entry) { unimplemented!() }

// ---- trusted leaf: little-endian u32 decoding (std), uninterpreted in the spec ----
pub uninterp spec fn le32(b: [u8;4]) -> u32;
#[verifier::external_body]
fn vf_u32_from_le_bytes(bytes: [u8;4]) -> (r: u32) ensures r == le32(bytes) { u32::from_le_bytes(bytes) }

// ---- spec vocabulary ----
pub open spec fn hx(h: ChangeHash, m: int) -> int { le32([h.0[0], h.0[1], h.0[2], h.0[3]]) as int % m }
pub open spec fn hy(h: ChangeHash, m: int) -> int { le32([h.0[4], h.0[5], h.0[6], h.0[7]]) as int % m }
pub open spec fn hz(h: ChangeHash, m: int) -> int { le32([h.0[8], h.0[9], h.0[10], h.0[11]]) as int % m }
pub open spec fn px(h: ChangeHash, m: int, k: nat) -> int decreases k {
    if k == 0 { hx(h, m) } else { (px(h, m, (k-1) as nat) + py(h, m, (k-1) as nat)) % m }
}
pub open spec fn py(h: ChangeHash, m: int, k: nat) -> int decreases k {
    if k == 0 { hy(h, m) } else { (py(h, m, (k-1) as nat) + hz(h, m)) % m }
}
/// number of probes actually produced for a wire value `p` (the code pushes the first
/// probe unconditionally)
pub open spec fn nprobes(p: u32) -> nat { if p == 0 { 1 } else { p as nat } }

pub open spec fn bit_set(bits: Seq<u8>, p: int) -> bool {
    0 <= p / 8 < bits.len() && (bits[p / 8] & (1u8 << ((p % 8) as u8))) != 0
}
pub open spec fn all_probes_set(bits: Seq<u8>, h: ChangeHash, np: u32) -> bool {
    forall|k: int| 0 <= k < nprobes(np) ==> bit_set(bits, #[trigger] px(h, 8 * (bits.len() as int), k as nat))
}
pub open spec fn monotone(a: Seq<u8>, b: Seq<u8>) -> bool {
    a.len() == b.len() && forall|p: int| bit_set(a, p) ==> bit_set(b, p)
}
/// C17: the allocation / loop bound that a decoded filter may cause in one query
pub spec const PROBE_LIMIT: nat = 1024;
/// size limit under which the `u32` arithmetic of get_probes cannot overflow (assumption,
/// reported: a Bloom bit array of 2^28 bytes = 256 MiB)
pub spec const BITS_LIMIT: nat = 0x1000_0000;

pub proof fn lemma_or_bit(b: u8, k: u8)
    requires k < 8
    ensures (b | (1u8 << k)) & (1u8 << k) != 0,
        forall|j: u8| j < 8 && (b & (1u8 << j)) != 0 ==> ((b | (1u8 << k)) & (1u8 << j)) != 0,
{
    assert((b | (1u8 << k)) & (1u8 << k) != 0) by (bit_vector) requires k < 8;
    assert forall|j: u8| j < 8 && (b & (1u8 << j)) != 0 implies ((b | (1u8 << k)) & (1u8 << j)) != 0 by {
        assert((b & (1u8 << j)) != 0 ==> ((b | (1u8 << k)) & (1u8 << j)) != 0) by (bit_vector);
    }
}

pub proof fn lemma_monotone_trans(a: Seq<u8>, b: Seq<u8>, c: Seq<u8>)
    requires monotone(a, b), monotone(b, c)
    ensures monotone(a, c)
{}

pub proof fn lemma_monotone_keeps_probes(a: Seq<u8>, b: Seq<u8>, h: ChangeHash, np: u32)
    requires monotone(a, b), all_probes_set(a, h, np)
    ensures all_probes_set(b, h, np)
{
    assert forall|k: int| 0 <= k < nprobes(np) implies bit_set(b, #[trigger] px(h, 8 * (b.len() as int), k as nat)) by {
        assert(bit_set(a, px(h, 8 * (a.len() as int), k as nat)));
    }
}

/// C23 (core): after any sequence of add_hash steps -- each step constrained only by
/// add_hash's *contract* -- every added hash satisfies the condition that
/// contains_hash's *contract* says it reports as `true`.
pub proof fn lemma_no_false_negative(states: Seq<Seq<u8>>, hs: Seq<ChangeHash>, np: u32)
    requires
        states.len() == hs.len() + 1,
        forall|i: int| 0 <= i < hs.len() ==> monotone(#[trigger] states[i], states[i + 1]) && all_probes_set(states[i + 1], hs[i], np),
    ensures
        forall|i: int| 0 <= i < hs.len() ==> all_probes_set(states[states.len() - 1], #[trigger] hs[i], np),
    decreases hs.len(),
{
    if hs.len() > 0 {
        let n = hs.len() as int;
        lemma_no_false_negative(states.subrange(0, n), hs.subrange(0, n - 1), np);
        assert forall|i: int| 0 <= i < hs.len() implies all_probes_set(states[states.len() - 1], #[trigger] hs[i], np) by {
            assert(states.len() - 1 == n);
            if i == n - 1 {
                assert(monotone(states[n - 1], states[n - 1 + 1]) && all_probes_set(states[n - 1 + 1], hs[n - 1], np));
            }
            if i < n - 1 {
                let st2 = states.subrange(0, n);
                let hs2 = hs.subrange(0, n - 1);
                assert(st2.len() - 1 == n - 1);
                assert(all_probes_set(st2[st2.len() - 1], hs2[i], np));
                assert(states.subrange(0, n)[n - 1] == states[n - 1]);
                assert(hs.subrange(0, n - 1)[i] == hs[i]);
                assert(all_probes_set(states[n - 1], hs[i], np));
                assert(monotone(states[n - 1], states[n]));
                lemma_monotone_keeps_probes(states[n - 1], states[n], hs[i], np);
            }
        }
    }
}

impl Default for BloomFilter {
//@ fn rust/automerge/src/sync/bloom.rs | impl Default for BloomFilter | default
//@   ret r
//@   spec
        ensures r.num_entries == 0, r.bits.len() == 0, r.num_probes == NUM_PROBES, r.num_bits_per_entry == BITS_PER_ENTRY, r.wf(),
//@ end
}

impl BloomFilter {
//@ fn rust/automerge/src/sync/bloom.rs | impl BloomFilter | to_bytes
//@   ret r
//@   spec
        ensures
            // C19/C23: the wire form is exactly  uleb(entries) ++ uleb(bits per entry) ++ uleb(probes) ++ bits
            self.num_entries == 0 ==> r@ =~= Seq::<u8>::empty(),
            self.num_entries != 0 ==> r@ =~= leb(self.num_entries as nat) + leb(self.num_bits_per_entry as nat) + leb(self.num_probes as nat) + self.bits@,
//@   after /buf\.extend\(&self\.bits\);/
            proof { axiom_iter_items_vec_ref::<u8>(&self.bits); }
//@ end

//@ fn rust/automerge/src/sync/bloom.rs | impl BloomFilter | parse
//@   ret r
//@   spec
        requires input.wf(),
        ensures
            input.bytes.len() == 0 ==> (r matches Ok((i, f)) && f.num_entries == 0 && f.bits.len() == 0 && f.wf()),
            // C17: every filter the decoder returns satisfies the invariant that bounds what a query allocates
            // and iterates (probe count <= PROBE_LIMIT), and its bit array is a copy of a SUB-SLICE of the input
            r matches Ok((i, f)) ==> nprobes(f.num_probes) <= PROBE_LIMIT && f.bits.len() <= input.bytes.len()
                && (input.bytes.len() > 0 ==> f.bits.len() == cap(f.num_entries, f.num_bits_per_entry)) && i.wf(),
            // C13 flavour: an input that stops inside the first length field is Incomplete
            (0 < input.bytes.len() < 10 && all_cont(input.bytes@, input.bytes.len() as int)) ==> (r matches Err(parse::ParseError::Incomplete(_))),
//@ end

    pub open spec fn modulo(&self) -> int { 8 * self.bits.len() }

    /// data-structure invariant of every BloomFilter value the library can hold
    /// (established by default / parse / from_hashes; see K harnesses for the latter two)
    pub open spec fn wf(&self) -> bool {
        self.bits.len() < BITS_LIMIT && nprobes(self.num_probes) <= PROBE_LIMIT
    }

//@ fn rust/automerge/src/sync/bloom.rs | impl BloomFilter | get_probes
//@   ret probes
//@   spec
        requires self.wf(),
        ensures
            // C17: what a query allocates / iterates is bounded by a constant
            probes.len() <= PROBE_LIMIT,
            // C23: degenerate (zero-bit) filters produce no probe instead of dividing by zero
            self.bits.len() == 0 ==> probes.len() == 0,
            self.bits.len() > 0 ==> probes.len() == nprobes(self.num_probes),
            forall|k: int| 0 <= k < probes.len() ==> #[trigger] probes[k] as int == px(*hash, self.modulo(), k as nat) && probes[k] < self.modulo(),
//@   loop 1 iter it
            invariant
                modulo as int == self.modulo(), 0 < modulo < 0x8000_0000,
                z as int == hz(*hash, modulo as int),
                probes.len() == 1 + it.index@,
                x as int == px(*hash, modulo as int, (probes.len()-1) as nat), x < modulo,
                y as int == py(*hash, modulo as int, (probes.len()-1) as nat), y < modulo,
                forall|k: int| 0 <= k < probes.len() ==> #[trigger] probes[k] as int == px(*hash, modulo as int, k as nat) && probes[k] < modulo,
//@ end

//@ fn rust/automerge/src/sync/bloom.rs | impl BloomFilter | set_bit
//@   spec
        requires probe < 8 * old(self).bits.len(),
        ensures final(self).bits.len() == old(self).bits.len(),
            final(self).num_entries == old(self).num_entries, final(self).num_probes == old(self).num_probes,
            final(self).num_bits_per_entry == old(self).num_bits_per_entry,
            monotone(old(self).bits@, final(self).bits@),
            bit_set(final(self).bits@, probe as int),
//@   before /if let Some\(byte\) = self\.bits\.get_mut/
        proof {
            assert((probe & 7) < 8 && (probe >> 3) == probe / 8 && (probe & 7) == probe % 8) by (bit_vector);
        }
//@   after /^        }$/
        proof {
            let k = (probe % 8) as u8;
            let idx = probe as int / 8;
            let ob = old(self).bits@[idx];
            lemma_or_bit(ob, k);
            assert((1u8 << (probe & 7)) == (1u8 << k)) by (bit_vector) requires k == (probe % 8) as u8, (probe & 7) == probe % 8;
            assert(self.bits@[idx] == ob | (1u8 << k));
            assert forall|j: int| 0 <= j < self.bits.len() && j != idx implies self.bits@[j] == old(self).bits@[j] by {}
            assert forall|p: int| bit_set(old(self).bits@, p) implies bit_set(self.bits@, p) by {
                if p / 8 == idx {
                    let j = (p % 8) as u8;
                    assert(j < 8);
                }
            }
        }
//@ end

    // get_bit: its closure computes `&u8 & u8`, which crashes this Verus.  It is NOT rewritten:
    // the contract below is assumed here and proved on the real function by Kani
    // (harness u01_get_bit_contract, loop-free, complete for every probe and byte value).
    #[verifier::external_body]
    fn get_bit(&self, probe: usize) -> (r: Option<u8>)
        ensures (probe as int / 8 < self.bits.len()) <==> r is Some,
            r matches Some(b) ==> (b != 0 <==> bit_set(self.bits@, probe as int)),
    { unimplemented!() }

//@ fn rust/automerge/src/sync/bloom.rs | impl BloomFilter | add_hash
//@   spec
        requires old(self).wf(),
        ensures final(self).bits.len() == old(self).bits.len(),
            final(self).num_entries == old(self).num_entries, final(self).num_probes == old(self).num_probes,
            final(self).num_bits_per_entry == old(self).num_bits_per_entry,
            monotone(old(self).bits@, final(self).bits@),
            final(self).bits.len() > 0 ==> all_probes_set(final(self).bits@, *hash, final(self).num_probes),
//@   loop 1 iter it
            invariant
                self.bits.len() == old(self).bits.len(),
                self.num_entries == old(self).num_entries, self.num_probes == old(self).num_probes,
                self.num_bits_per_entry == old(self).num_bits_per_entry,
                monotone(old(self).bits@, self.bits@),
                self.bits.len() > 0 ==> it.seq().len() == nprobes(self.num_probes),
                self.bits.len() == 0 ==> it.seq().len() == 0,
                forall|k: int| 0 <= k < it.seq().len() ==> #[trigger] it.seq()[k] as int == px(*hash, 8 * (self.bits.len() as int), k as nat) && it.seq()[k] < 8 * self.bits.len(),
                forall|k: int| 0 <= k < it.index@ ==> bit_set(self.bits@, #[trigger] px(*hash, 8 * (self.bits.len() as int), k as nat)),
//@ end

//@ fn rust/automerge/src/sync/bloom.rs | impl BloomFilter | contains_hash
//@   ret r
//@   spec
        requires self.wf(),
        ensures
            // C23, taken from the property statement: NO FALSE NEGATIVE -- whenever every probe bit of
            // `hash` is set (which add_hash establishes and later add_hash calls preserve) the answer
            // is `true`.  Totality (no panic on any well-formed filter, zero-bit ones included) is the
            // implicit obligation of the body.  The converse direction (false positives) is not part
            // of C23 and deliberately not demanded.
            (self.num_entries != 0 && self.bits.len() > 0 && all_probes_set(self.bits@, *hash, self.num_probes)) ==> r,
//@   loop 1 iter it
                invariant
                    self.wf(),
                    self.bits.len() > 0 ==> it.seq().len() == nprobes(self.num_probes),
                    self.bits.len() == 0 ==> it.seq().len() == 0,
                    forall|k: int| 0 <= k < it.seq().len() ==> #[trigger] it.seq()[k] as int == px(*hash, 8 * (self.bits.len() as int), k as nat) && it.seq()[k] < 8 * self.bits.len(),
//@ end
}

} // mod bloom
} // verus!
fn main() {}
