// U02 parse -- rust/automerge/src/storage/parse.rs, parse/leb128.rs  (engine V, unbounded)
use vstd::prelude::*;
use core::num::NonZeroUsize;
use std::num::NonZeroU64;
use std::convert::TryInto;
verus! {

//@ item rust/automerge/src/storage/parse.rs | type ParseResult
//@ item rust/automerge/src/storage/parse.rs | struct Input
//@ item rust/automerge/src/storage/parse.rs | enum ParseError
//@ item rust/automerge/src/storage/parse.rs | enum Needed
//@ item rust/automerge/src/storage/parse.rs | struct Split
//@ item rust/automerge/src/storage/parse.rs | struct InvalidUtf8
//@ item rust/automerge/src/storage/parse.rs | const HASH_SIZE
//@ item rust/automerge/src/storage/parse/leb128.rs | enum Error
//@ item rust/automerge/src/types.rs | struct ChangeHash

// ---------------------------------------------------------------- assumed environment (trusted)
#[verifier::external_type_specification]
#[verifier::external_body]
pub struct ExTryFromSliceError(core::array::TryFromSliceError);
#[verifier::external_type_specification]
#[verifier::external_body]
pub struct ExFromUtf8Error(std::string::FromUtf8Error);
/// "the byte string is well-formed UTF-8" -- uninterpreted; std's validator is trusted
pub uninterp spec fn valid_utf8(s: Seq<u8>) -> bool;
pub uninterp spec fn string_bytes(s: String) -> Seq<u8>;
pub assume_specification[ String::from_utf8 ](v: Vec<u8>) -> (r: Result<String, std::string::FromUtf8Error>)
    ensures r is Ok <==> valid_utf8(v@),
        r matches Ok(s) ==> string_bytes(s) == v@;
/// trusted wrapper for `<&[u8]>::try_into::<[u8;4]>().expect(..)` (vstd cannot be given a spec for the
/// core `TryFrom<&[T]> for [T;N]` impl); the `requires` is exactly the condition under which it panics
#[verifier::external_body]
fn vf_slice_to_array4(s: &[u8]) -> (r: [u8; 4]) requires s.len() == 4 ensures r@ == s@ { s.try_into().expect("we checked the length") }
pub assume_specification<T: Clone>[ <[T]>::to_vec ](s: &[T]) -> (r: Vec<T>) ensures r@ == s@;

#[derive(Debug)] pub struct InvalidChangeHashSlice;
// ChangeHash: TryFrom<&[u8]> (types.rs) -- assumed: Ok exactly for 32-byte slices, bytes copied
impl<'a> TryFrom<&'a [u8]> for ChangeHash {
    type Error = InvalidChangeHashSlice;
    #[verifier::external_body]
    fn try_from(b: &'a [u8]) -> (r: Result<Self, InvalidChangeHashSlice>)
        ensures b.len() == 32 <==> r is Ok, r matches Ok(h) ==> h.0@ == b@,
    { unimplemented!() }
}

// ---------------------------------------------------------------- spec vocabulary
pub open spec fn all_cont(s: Seq<u8>, k: int) -> bool { forall|j: int| 0 <= j < k ==> #[trigger] s[j] >= 0x80 }

pub open spec fn p128(k: nat) -> nat decreases k { if k == 0 { 1 } else { 128 * p128((k - 1) as nat) } }
/// value of the first k 7-bit groups, little end first
pub open spec fn valk(s: Seq<u8>, k: nat) -> nat decreases k {
    if k == 0 { 0 } else { valk(s, (k - 1) as nat) + (s[k - 1] as nat % 128) * p128((k - 1) as nat) }
}
/// canonical unsigned LEB128
pub open spec fn leb(n: nat) -> Seq<u8> decreases n {
    if n < 128 { seq![n as u8] } else { seq![((n % 128) + 128) as u8] + leb(n / 128) }
}

impl<E> ParseError<E> {
    pub open spec fn incomplete(&self) -> bool { self is Incomplete }
//@ fn rust/automerge/src/storage/parse.rs | impl<E> ParseError<E> | lift
//@   ret r
//@   spec
        ensures self.incomplete() <==> r.incomplete(),
//@ end
}

impl<'a> Input<'a> {
    /// offsets never overflow (assumption on the size of inputs: see evidence)
    pub open spec fn wf(&self) -> bool { self.position + self.bytes.len() <= usize::MAX }
    /// `position` is the offset of `bytes` inside `original` and `bytes` is the tail of `original`
    pub open spec fn aligned(&self) -> bool {
        self.position + self.bytes.len() == self.original.len()
        && self.bytes@ =~= self.original@.subrange(self.position as int, self.original.len() as int)
    }
    /// `i` is `self` after consuming exactly `k` bytes
    pub open spec fn advanced(&self, i: Input<'a>, k: int) -> bool {
        0 <= k <= self.bytes.len() && i.bytes@ =~= self.bytes@.subrange(k, self.bytes.len() as int)
        && i.position == self.position + k && i.original == self.original
    }

//@ fn rust/automerge/src/storage/parse.rs | impl<'a> Input<'a> | new
//@   ret r
//@   spec
        ensures r.wf(), r.aligned(), r.bytes == bytes, r.position == 0, r.original == bytes,
//@ end

//@ fn rust/automerge/src/storage/parse.rs | impl<'a> Input<'a> | empty
//@   ret r
//@   spec
        ensures r.wf(), r.bytes.len() == 0, r.position == 0,
//@ end

//@ fn rust/automerge/src/storage/parse.rs | impl<'a> Input<'a> | take_1
//@   ret r
//@   spec
        requires self.wf(),
        ensures self.bytes.len() == 0 <==> r is Err,
            r is Err ==> r matches Err(ParseError::Incomplete(_)),
            r matches Ok((i, b)) ==> b == self.bytes[0] && self.advanced(i, 1) && i.wf() && (self.aligned() ==> i.aligned()),
//@ end

//@ fn rust/automerge/src/storage/parse.rs | impl<'a> Input<'a> | take_n
//@   ret r
//@   spec
        requires self.wf(),
        ensures
            // C13/C17: Ok exactly when n bytes are available; nothing is allocated, the
            // result is a sub-slice of the input
            n <= self.bytes.len() <==> r is Ok,
            r is Err ==> r matches Err(ParseError::Incomplete(_)),
            r matches Ok((i, b)) ==> b@ =~= self.bytes@.subrange(0, n as int) && self.advanced(i, n as int) && i.wf() && (self.aligned() ==> i.aligned()),
//@ end

//@ fn rust/automerge/src/storage/parse.rs | impl<'a> Input<'a> | take_4
//@   ret r
//@   subst /result\.try_into\(\)\.expect\("we checked the length"\)/ => vf_slice_to_array4(result)
//@   spec
        requires self.wf(),
        ensures 4 <= self.bytes.len() <==> r is Ok,
            r is Err ==> r matches Err(ParseError::Incomplete(_)),
            r matches Ok((i, b)) ==> b@ =~= self.bytes@.subrange(0, 4) && self.advanced(i, 4) && i.wf() && (self.aligned() ==> i.aligned()),
//@ end

//@ fn rust/automerge/src/storage/parse.rs | impl<'a> Input<'a> | rest
//@   ret r
//@   spec
        requires self.wf(),
        ensures r matches Ok((i, b)) && b == self.bytes && self.advanced(i, self.bytes.len() as int) && i.bytes.len() == 0 && i.wf(),
//@ end

//@ fn rust/automerge/src/storage/parse.rs | impl<'a> Input<'a> | truncate
//@   ret r
//@   spec
        requires self.wf(), self.aligned(),
        ensures r.wf(), r.aligned(), r.position == self.position,
            length <= self.bytes.len() ==> r.bytes@ =~= self.bytes@.subrange(0, length as int),
            length > self.bytes.len() ==> r.bytes@ =~= self.bytes@,
//@ end

//@ fn rust/automerge/src/storage/parse.rs | impl<'a> Input<'a> | skip
//@   ret r
//@   spec
        requires self.wf(), self.aligned(),
        ensures r.wf(),
            length <= self.bytes.len() ==> r.bytes@ =~= self.bytes@.subrange(length as int, self.bytes.len() as int) && r.position == self.position + length,
            length > self.bytes.len() ==> r.bytes.len() == 0,
//@ end

//@ fn rust/automerge/src/storage/parse.rs | impl<'a> Input<'a> | split
//@   ret r
//@   spec
        requires self.wf(), self.aligned(),
        ensures r.first.wf(), r.first.aligned(), r.remaining.wf(),
            length <= self.bytes.len() ==> r.first.bytes@ + r.remaining.bytes@ =~= self.bytes@ && r.first.bytes.len() == length,
//@ end

//@ fn rust/automerge/src/storage/parse.rs | impl<'a> Input<'a> | reset
//@   ret r
//@   spec
        ensures r.wf(), r.aligned(), r.bytes == self.bytes, r.position == 0,
//@ end

//@ fn rust/automerge/src/storage/parse.rs | impl<'a> Input<'a> | is_empty
//@   ret r
//@   spec
        ensures r == (self.bytes.len() == 0),
//@ end

//@ fn rust/automerge/src/storage/parse.rs | impl<'a> Input<'a> | unconsumed_bytes
//@   ret r
//@   spec
        ensures r == self.bytes,
//@ end
}

//@ fn rust/automerge/src/storage/parse.rs | take1
//@   ret r
//@   spec
    requires input.wf(),
    ensures input.bytes.len() == 0 <==> r is Err,
        r is Err ==> r matches Err(ParseError::Incomplete(_)),
        r matches Ok((i, b)) ==> b == input.bytes[0] && input.advanced(i, 1) && i.wf() && (input.aligned() ==> i.aligned()),
//@ end

//@ fn rust/automerge/src/storage/parse.rs | take4
//@   ret r
//@   spec
    requires input.wf(),
    ensures 4 <= input.bytes.len() <==> r is Ok,
        r is Err ==> r matches Err(ParseError::Incomplete(_)),
        r matches Ok((i, b)) ==> b@ =~= input.bytes@.subrange(0, 4) && input.advanced(i, 4) && i.wf() && (input.aligned() ==> i.aligned()),
//@ end

//@ fn rust/automerge/src/storage/parse.rs | take_n
//@   ret r
//@   spec
    requires input.wf(),
    ensures n <= input.bytes.len() <==> r is Ok,
        r is Err ==> r matches Err(ParseError::Incomplete(_)),
        r matches Ok((i, b)) ==> b@ =~= input.bytes@.subrange(0, n as int) && input.advanced(i, n as int) && i.wf() && (input.aligned() ==> i.aligned()),
//@ end

//@ fn rust/automerge/src/storage/parse.rs | take_rest
//@   ret r
//@   spec
    requires input.wf(),
    ensures r matches Ok((i, b)) && b == input.bytes && i.bytes.len() == 0 && i.wf(),
//@ end

// ---------------------------------------------------------------- LEB128 lemmas
pub proof fn lemma_p128_shift(k: nat)
    requires k <= 9
    ensures p128(k) == (1u64 << ((7 * k) as u64)) as nat, k <= 8 ==> p128(k) * 128 <= 0x8000_0000_0000_0000,
{
    reveal_with_fuel(p128, 11);
    assert((1u64 << 0u64) == 1) by (bit_vector);
    assert((1u64 << 7u64) == 128) by (bit_vector);
    assert((1u64 << 14u64) == 16384) by (bit_vector);
    assert((1u64 << 21u64) == 2097152) by (bit_vector);
    assert((1u64 << 28u64) == 268435456) by (bit_vector);
    assert((1u64 << 35u64) == 34359738368) by (bit_vector);
    assert((1u64 << 42u64) == 4398046511104) by (bit_vector);
    assert((1u64 << 49u64) == 562949953421312) by (bit_vector);
    assert((1u64 << 56u64) == 72057594037927936) by (bit_vector);
    assert((1u64 << 63u64) == 9223372036854775808) by (bit_vector);
}

//@ fn rust/automerge/src/storage/parse/leb128.rs | leb128_u64
//@   ret r
//@   attr #[verifier::loop_isolation(false)]
//@   spec
    requires input.wf(),
    ensures
        // C15/C17: consumes 1..=10 bytes: the last without continuation bit, the others with it
        r matches Ok((i, v)) ==> ({ let k = i.position - input.position; 1 <= k <= 10 && input.advanced(i, k)
            && all_cont(input.bytes@, k - 1) && input.bytes[k - 1] < 0x80 && i.wf() && (input.aligned() ==> i.aligned())
            // canonical only: an accepted multi-byte encoding never ends in a zero group
            && (k > 1 ==> input.bytes[k - 1] != 0) }),
        // C13: Incomplete exactly when the input ends inside an encoding -- so every strict
        // prefix of an accepted encoding is Incomplete, never Ok and never another error
        (r matches Err(ParseError::Incomplete(_))) <==> (input.bytes.len() < 10 && all_cont(input.bytes@, input.bytes.len() as int)),
//@   before /^    loop \{$/
    let ghost orig = input;
    let ghost mut k: int = 0;
    proof { assert(orig.bytes@.subrange(0, orig.bytes.len() as int) =~= orig.bytes@); }
//@   loop 1
        invariant
            0 <= k <= 9, shift == 7 * k, orig.wf(), input.wf(),
            orig.advanced(input, k), all_cont(orig.bytes@, k),
            orig.aligned() ==> input.aligned(),
        decreases 10 - k,
//@   before /let \(i, byte\) = take1\(input\)\?;/
        proof { assert(input.bytes.len() == orig.bytes.len() - k); }
//@   after /input = i;/
        proof {
            assert(byte == orig.bytes[k]);
            assert(input.bytes@ =~= orig.bytes@.subrange(k + 1, orig.bytes.len() as int));
            assert(byte & 0x7F <= 0x7f) by (bit_vector);
            assert((byte & 0x80) == 0 <==> byte < 0x80) by (bit_vector);
        }
//@   after /shift \+= 7;/
        proof {
            k = k + 1;
            assert(orig.bytes@[k - 1] == byte); assert(orig.advanced(input, k)); assert(all_cont(orig.bytes@, k - 1));
            assert((byte & 0x80) == 0 ==> orig.bytes[k - 1] < 0x80);
        }
//@ end

//@ fn rust/automerge/src/storage/parse/leb128.rs | leb128_i64
//@   ret r
//@   attr #[verifier::loop_isolation(false)]
//@   spec
    requires input.wf(),
    ensures
        r matches Ok((i, v)) ==> ({ let k = i.position - input.position; 1 <= k <= 10 && input.advanced(i, k)
            && all_cont(input.bytes@, k - 1) && input.bytes[k - 1] < 0x80 && i.wf() && (input.aligned() ==> i.aligned()) }),
        (r matches Err(ParseError::Incomplete(_))) <==> (input.bytes.len() < 10 && all_cont(input.bytes@, input.bytes.len() as int)),
//@   before /^    loop \{$/
    let ghost orig = input;
    let ghost mut k: int = 0;
    proof { assert(orig.bytes@.subrange(0, orig.bytes.len() as int) =~= orig.bytes@); }
//@   loop 1
        invariant
            0 <= k <= 9, shift == 7 * k, orig.wf(), input.wf(),
            orig.advanced(input, k), all_cont(orig.bytes@, k),
            orig.aligned() ==> input.aligned(),
        decreases 10 - k,
//@   before /let \(i, byte\) = take1\(input\)\?;/
        proof { assert(input.bytes.len() == orig.bytes.len() - k); }
//@   after /input = i;/
        proof {
            assert(byte == orig.bytes[k]);
            assert(input.bytes@ =~= orig.bytes@.subrange(k + 1, orig.bytes.len() as int));
            assert(byte & 0x7F <= 0x7f) by (bit_vector);
            assert((byte & 0x80) == 0 <==> byte < 0x80) by (bit_vector);
        }
//@   after /shift \+= 7;/
        proof {
            k = k + 1;
            assert(orig.bytes@[k - 1] == byte); assert(orig.advanced(input, k)); assert(all_cont(orig.bytes@, k - 1));
            assert((byte & 0x80) == 0 ==> orig.bytes[k - 1] < 0x80);
        }
//@ end

//@ fn rust/automerge/src/storage/parse/leb128.rs | leb128_u32
//@   ret r
//@   spec
    requires input.wf(),
    ensures
        r matches Ok((i, v)) ==> ({ let k = i.position - input.position; 1 <= k <= 5 + 5 && input.advanced(i, k) && i.wf() && (input.aligned() ==> i.aligned()) }),
        (input.bytes.len() < 10 && all_cont(input.bytes@, input.bytes.len() as int)) ==> (r matches Err(ParseError::Incomplete(_))),
//@ end

//@ fn rust/automerge/src/storage/parse/leb128.rs | nonzero_leb128_u64
//@   ret r
//@   spec
    requires input.wf(),
    ensures
        r matches Ok((i, v)) ==> ({ let k = i.position - input.position; 1 <= k <= 10 && input.advanced(i, k) && i.wf() }),
        (input.bytes.len() < 10 && all_cont(input.bytes@, input.bytes.len() as int)) ==> (r matches Err(ParseError::Incomplete(_))),
//@ end

//@ fn rust/automerge/src/storage/parse.rs | change_hash
//@   ret r
//@   spec
    requires input.wf(),
    ensures 32 <= input.bytes.len() <==> r is Ok,
        r is Err ==> r matches Err(ParseError::Incomplete(_)),
        r matches Ok((i, h)) ==> h.0@ =~= input.bytes@.subrange(0, 32) && input.advanced(i, 32) && i.wf(),
//@ end

//@ fn rust/automerge/src/storage/parse.rs | utf_8
//@   ret r
//@   spec
    requires input.wf(),
    ensures
        // C39: only validated UTF-8 becomes a String
        r matches Ok((i, s)) ==> len <= input.bytes.len() && valid_utf8(input.bytes@.subrange(0, len as int))
            && string_bytes(s) == input.bytes@.subrange(0, len as int) && input.advanced(i, len as int) && i.wf(),
        len > input.bytes.len() ==> (r matches Err(ParseError::Incomplete(_))),
        (len <= input.bytes.len() && !valid_utf8(input.bytes@.subrange(0, len as int))) ==> r is Err,
//@ end

} // verus!
fn main() {}
