// U02 parse -- rust/automerge/src/storage/parse.rs, parse/leb128.rs  (engine V, unbounded)
use vstd::prelude::*;
use core::num::NonZeroUsize;
use std::num::NonZeroU64;
use std::convert::TryInto;
verus! {
//@@ body-begin
// the offsets and length fields of this unit are reasoned about for a 64-bit target
global layout usize is size == 8;

//@ item rust/automerge/src/storage/parse.rs | type ParseResult
//@ item rust/automerge/src/storage/parse.rs | struct Input
//@ item rust/automerge/src/storage/parse.rs | enum ParseError
//@ item rust/automerge/src/storage/parse.rs | enum Needed
//@ item rust/automerge/src/storage/parse.rs | struct Split
//@ item rust/automerge/src/storage/parse.rs | struct InvalidUtf8
//@ item rust/automerge/src/storage/parse.rs | const HASH_SIZE
//@ item rust/automerge/src/storage/parse/leb128.rs | enum Error
//@ item rust/automerge/src/types.rs | struct ChangeHash

// ---------------------------------------------------------------- assumed environment (trusted)
#[verifier::external_type_specification]
#[verifier::external_body]
pub struct ExTryFromSliceError(core::array::TryFromSliceError);
#[verifier::external_type_specification]
#[verifier::external_body]
pub struct ExFromUtf8Error(std::string::FromUtf8Error);
/// "the byte string is well-formed UTF-8" -- uninterpreted; std's validator is trusted
pub uninterp spec fn valid_utf8(s: Seq<u8>) -> bool;
pub uninterp spec fn string_bytes(s: String) -> Seq<u8>;
pub assume_specification[ String::from_utf8 ](v: Vec<u8>) -> (r: Result<String, std::string::FromUtf8Error>)
    ensures r is Ok <==> valid_utf8(v@),
        r matches Ok(s) ==> string_bytes(s) == v@;
/// trusted wrapper for `<&[u8]>::try_into::<[u8;4]>().expect(..)` (vstd cannot be given a spec for the
/// core `TryFrom<&[T]> for [T;N]` impl); the `requires` is exactly the condition under which it panics
#[verifier::external_body]
fn vf_slice_to_array4(s: &[u8]) -> (r: [u8; 4]) requires s.len() == 4 ensures r@ == s@ { s.try_into().expect("we checked the length") }
pub assume_specification<T: Clone>[ <[T]>::to_vec ](s: &[T]) -> (r: Vec<T>) ensures r@ == s@;

#[derive(Debug)] pub struct InvalidChangeHashSlice;
// ChangeHash: TryFrom<&[u8]> (types.rs) -- assumed: Ok exactly for 32-byte slices, bytes copied
impl<'a> TryFrom<&'a [u8]> for ChangeHash {
    type Error = InvalidChangeHashSlice;
    #[verifier::external_body]
    fn try_from(b: &'a [u8]) -> (r: Result<Self, InvalidChangeHashSlice>)
        ensures b.len() == 32 <==> r is Ok, r matches Ok(h) ==> h.0@ == b@,
    { unimplemented!() }
}

/// `leb128::Error` of parse.rs (sub-module parse::leb128) and the writer of the `leb128` crate share this name here.
/// The crate writer is ASSUMED: `out == old ++ leb(n)` (backed by Kani harness u03_leb128_writer_matches_parser for all
/// u64); `signed` is listed so that a switch to the signed writer is a failed obligation rather than an unknown function.
pub mod leb128 {
    pub use super::Error;
    pub mod write {
        use vstd::prelude::*;
        verus!{
        #[verifier::external_body]
        pub fn unsigned(out: &mut Vec<u8>, n: u64) -> (r: Result<usize, ()>) ensures final(out)@ == old(out)@ + super::super::leb(n as nat), r is Ok { unimplemented!() }
        #[verifier::external_body]
        pub fn signed(out: &mut Vec<u8>, n: i64) -> (r: Result<usize, ()>) ensures final(out)@ == old(out)@ + super::super::sleb(n as int), r is Ok { unimplemented!() }
        }
    }
}
/// canonical signed LEB128 (only used to give the signed writer a meaning different from the unsigned one)
pub open spec fn sleb(i: int) -> Seq<u8> decreases (if i >= 0 { i } else { -i - 1 }) {
    if -64 <= i < 64 { seq![(i % 128) as u8] } else { seq![((i % 128) + 128) as u8] + sleb(i / 128 - (if i % 128 < 0 { 1int } else { 0int })) }
}

// ---------------------------------------------------------------- spec vocabulary
pub open spec fn all_cont(s: Seq<u8>, k: int) -> bool { forall|j: int| 0 <= j < k ==> #[trigger] s[j] >= 0x80 }

pub open spec fn p128(k: nat) -> nat decreases k { if k == 0 { 1 } else { 128 * p128((k - 1) as nat) } }
/// value of the first k 7-bit groups, little end first
pub open spec fn valk(s: Seq<u8>, k: nat) -> nat decreases k {
    if k == 0 { 0 } else { valk(s, (k - 1) as nat) + (s[k - 1] as nat % 128) * p128((k - 1) as nat) }
}
/// canonical unsigned LEB128
pub open spec fn leb(n: nat) -> Seq<u8> decreases n {
    if n < 128 { seq![n as u8] } else { seq![((n % 128) + 128) as u8] + leb(n / 128) }
}

impl<E> ParseError<E> {
    pub open spec fn incomplete(&self) -> bool { self is Incomplete }
//@ fn rust/automerge/src/storage/parse.rs | impl<E> ParseError<E> | lift
//@   ret r
//@   spec
        ensures self.incomplete() <==> r.incomplete(),
//@ end
}

impl<'a> Input<'a> {
    /// offsets never overflow (assumption on the size of inputs: see evidence)
    pub open spec fn wf(&self) -> bool { self.position + self.bytes.len() <= usize::MAX }
    /// `position` is the offset of `bytes` inside `original` and `bytes` is the tail of `original`
    pub open spec fn aligned(&self) -> bool {
        self.position + self.bytes.len() == self.original.len()
        && self.bytes@ =~= self.original@.subrange(self.position as int, self.original.len() as int)
    }
    /// `i` is `self` after consuming exactly `k` bytes
    pub open spec fn advanced(&self, i: Input<'a>, k: int) -> bool {
        0 <= k <= self.bytes.len() && i.bytes@ =~= self.bytes@.subrange(k, self.bytes.len() as int)
        && i.position == self.position + k && i.original == self.original
    }

//@ fn rust/automerge/src/storage/parse.rs | impl<'a> Input<'a> | new
//@   ret r
//@   spec
        ensures r.wf(), r.aligned(), r.bytes == bytes, r.position == 0, r.original == bytes,
//@ end

//@ fn rust/automerge/src/storage/parse.rs | impl<'a> Input<'a> | empty
//@   ret r
//@   spec
        ensures r.wf(), r.bytes.len() == 0, r.position == 0,
//@ end

//@ fn rust/automerge/src/storage/parse.rs | impl<'a> Input<'a> | take_1
//@   ret r
//@   spec
        requires self.wf(),
        ensures self.bytes.len() == 0 <==> r is Err,
            r is Err ==> r matches Err(ParseError::Incomplete(_)),
            r matches Ok((i, b)) ==> b == self.bytes[0] && self.advanced(i, 1) && i.wf() && (self.aligned() ==> i.aligned()),
//@ end

//@ fn rust/automerge/src/storage/parse.rs | impl<'a> Input<'a> | take_n
//@   ret r
//@   spec
        requires self.wf(),
        ensures
            // C13/C17: Ok exactly when n bytes are available; nothing is allocated, the
            // result is a sub-slice of the input
            n <= self.bytes.len() <==> r is Ok,
            r is Err ==> r matches Err(ParseError::Incomplete(_)),
            r matches Ok((i, b)) ==> b@ =~= self.bytes@.subrange(0, n as int) && self.advanced(i, n as int) && i.wf() && (self.aligned() ==> i.aligned()),
//@ end

//@ fn rust/automerge/src/storage/parse.rs | impl<'a> Input<'a> | take_4
//@   ret r
//@   subst /result\.try_into\(\)\.expect\("we checked the length"\)/ => vf_slice_to_array4(result)
//@   spec
        requires self.wf(),
        ensures 4 <= self.bytes.len() <==> r is Ok,
            r is Err ==> r matches Err(ParseError::Incomplete(_)),
            r matches Ok((i, b)) ==> b@ =~= self.bytes@.subrange(0, 4) && self.advanced(i, 4) && i.wf() && (self.aligned() ==> i.aligned()),
//@ end

//@ fn rust/automerge/src/storage/parse.rs | impl<'a> Input<'a> | rest
//@   ret r
//@   spec
        requires self.wf(),
        ensures r matches Ok((i, b)) && b == self.bytes && self.advanced(i, self.bytes.len() as int) && i.bytes.len() == 0 && i.wf(),
//@ end

//@ fn rust/automerge/src/storage/parse.rs | impl<'a> Input<'a> | truncate
//@   ret r
//@   spec
        requires self.wf(), self.aligned(),
        ensures r.wf(), r.aligned(), r.position == self.position,
            length <= self.bytes.len() ==> r.bytes@ =~= self.bytes@.subrange(0, length as int),
            length > self.bytes.len() ==> r.bytes@ =~= self.bytes@,
//@ end

//@ fn rust/automerge/src/storage/parse.rs | impl<'a> Input<'a> | skip
//@   ret r
//@   spec
        requires self.wf(), self.aligned(),
        ensures r.wf(),
            length <= self.bytes.len() ==> r.bytes@ =~= self.bytes@.subrange(length as int, self.bytes.len() as int) && r.position == self.position + length,
            length > self.bytes.len() ==> r.bytes.len() == 0,
//@ end

//@ fn rust/automerge/src/storage/parse.rs | impl<'a> Input<'a> | split
//@   ret r
//@   spec
        requires self.wf(), self.aligned(),
        ensures r.first.wf(), r.first.aligned(), r.remaining.wf(),
            length <= self.bytes.len() ==> r.first.bytes@ + r.remaining.bytes@ =~= self.bytes@ && r.first.bytes.len() == length,
//@ end

//@ fn rust/automerge/src/storage/parse.rs | impl<'a> Input<'a> | reset
//@   ret r
//@   spec
        ensures r.wf(), r.aligned(), r.bytes == self.bytes, r.position == 0,
//@ end

//@ fn rust/automerge/src/storage/parse.rs | impl<'a> Input<'a> | is_empty
//@   ret r
//@   spec
        ensures r == (self.bytes.len() == 0),
//@ end

//@ fn rust/automerge/src/storage/parse.rs | impl<'a> Input<'a> | unconsumed_bytes
//@   ret r
//@   spec
        ensures r == self.bytes,
//@ end
}

//@ fn rust/automerge/src/storage/parse.rs | take1
//@   ret r
//@   spec
    requires input.wf(),
    ensures input.bytes.len() == 0 <==> r is Err,
        r is Err ==> r matches Err(ParseError::Incomplete(_)),
        r matches Ok((i, b)) ==> b == input.bytes[0] && input.advanced(i, 1) && i.wf() && (input.aligned() ==> i.aligned()),
//@ end

//@ fn rust/automerge/src/storage/parse.rs | take4
//@   ret r
//@   spec
    requires input.wf(),
    ensures 4 <= input.bytes.len() <==> r is Ok,
        r is Err ==> r matches Err(ParseError::Incomplete(_)),
        r matches Ok((i, b)) ==> b@ =~= input.bytes@.subrange(0, 4) && input.advanced(i, 4) && i.wf() && (input.aligned() ==> i.aligned()),
//@ end

//@ fn rust/automerge/src/storage/parse.rs | take_n
//@   ret r
//@   spec
    requires input.wf(),
    ensures n <= input.bytes.len() <==> r is Ok,
        r is Err ==> r matches Err(ParseError::Incomplete(_)),
        r matches Ok((i, b)) ==> b@ =~= input.bytes@.subrange(0, n as int) && input.advanced(i, n as int) && i.wf() && (input.aligned() ==> i.aligned()),
//@ end

//@ fn rust/automerge/src/storage/parse.rs | take_rest
//@   ret r
//@   spec
    requires input.wf(),
    ensures r matches Ok((i, b)) && b == input.bytes && i.bytes.len() == 0 && i.wf(),
//@ end

// ---------------------------------------------------------------- LEB128 lemmas
pub proof fn lemma_p128_shift(k: nat)
    requires k <= 9
    ensures p128(k) == (1u64 << ((7 * k) as u64)) as nat, k <= 8 ==> p128(k) * 128 <= 0x8000_0000_0000_0000,
{
    reveal_with_fuel(p128, 11);
    assert((1u64 << 0u64) == 1) by (bit_vector);
    assert((1u64 << 7u64) == 128) by (bit_vector);
    assert((1u64 << 14u64) == 16384) by (bit_vector);
    assert((1u64 << 21u64) == 2097152) by (bit_vector);
    assert((1u64 << 28u64) == 268435456) by (bit_vector);
    assert((1u64 << 35u64) == 34359738368) by (bit_vector);
    assert((1u64 << 42u64) == 4398046511104) by (bit_vector);
    assert((1u64 << 49u64) == 562949953421312) by (bit_vector);
    assert((1u64 << 56u64) == 72057594037927936) by (bit_vector);
    assert((1u64 << 63u64) == 9223372036854775808) by (bit_vector);
}
/// one decoding step for the first nine groups: OR-ing a 7-bit group above `res` is adding it
pub proof fn lemma_or_add(res: u64, b: u8, s: u64)
    requires s <= 56, res < (1u64 << s),
    ensures (res | (((b & 0x7F) as u64) << s)) == res + ((b & 0x7F) as u64) * (1u64 << s),
        (res | (((b & 0x7F) as u64) << s)) < (1u64 << ((s + 7) as u64)),
        (b & 0x7F) as nat == b as nat % 128,
{
    assert((res | (((b & 0x7F) as u64) << s)) == res + ((b & 0x7F) as u64) * (1u64 << s)) by (bit_vector) requires s <= 56, res < (1u64 << s);
    assert((res | (((b & 0x7F) as u64) << s)) < (1u64 << ((s + 7) as u64))) by (bit_vector) requires s <= 56, res < (1u64 << s);
    assert((b & 0x7F) == b % 128) by (bit_vector);
}
/// the tenth group: only the value 1 survives the checks, and it lands on bit 63
pub proof fn lemma_or_add_top(res: u64, b: u8)
    requires res < (1u64 << 63u64), b == 1,
    ensures (res | (((b & 0x7F) as u64) << 63u64)) == res + 0x8000_0000_0000_0000u64,
{
    assert((res | (((b & 0x7F) as u64) << 63u64)) == res + 0x8000_0000_0000_0000u64) by (bit_vector) requires res < (1u64 << 63u64), b == 1;
}
/// valk only looks at the first k bytes
pub proof fn lemma_valk_prefix(s: Seq<u8>, t: Seq<u8>, k: nat)
    requires k <= s.len(), k <= t.len(), forall|j: int| 0 <= j < k ==> s[j] == t[j],
    ensures valk(s, k) == valk(t, k),
    decreases k,
{
    if k > 0 { lemma_valk_prefix(s, t, (k - 1) as nat); }
}
/// peel the LOW group: valk(s,k) = s[0]%128 + 128 * valk(s[1..], k-1)
pub proof fn lemma_valk_shift(s: Seq<u8>, k: nat)
    requires 1 <= k <= s.len(),
    ensures valk(s, k) == (s[0] as nat % 128) + 128 * valk(s.subrange(1, s.len() as int), (k - 1) as nat),
    decreases k,
{
    let t = s.subrange(1, s.len() as int);
    if k == 1 {
        reveal_with_fuel(valk, 2);
        reveal_with_fuel(p128, 2);
        assert(valk(s, 1) == valk(s, 0) + (s[0] as nat % 128) * p128(0));
    } else {
        lemma_valk_shift(s, (k - 1) as nat);
        assert(t[k - 2] == s[k - 1]);
        assert(p128((k - 1) as nat) == 128 * p128((k - 2) as nat));
        let a = s[0] as nat % 128;
        let g = s[k - 1] as nat % 128;
        let m1 = valk(t, (k - 2) as nat);
        assert(valk(s, (k - 1) as nat) == a + 128 * m1);
        assert(valk(t, (k - 1) as nat) == m1 + g * p128((k - 2) as nat));
        assert(valk(s, k) == valk(s, (k - 1) as nat) + g * p128((k - 1) as nat));
        assert(g * (128 * p128((k - 2) as nat)) == 128 * (g * p128((k - 2) as nat))) by (nonlinear_arith);
    }
}
pub proof fn lemma_valk_1(s: Seq<u8>)
    requires s.len() >= 1,
    ensures valk(s, 1) == s[0] as nat % 128,
{
    assert(p128(0) == 1);
    assert(valk(s, 0) == 0);
    assert(valk(s, 1) == valk(s, 0) + (s[0] as nat % 128) * p128(0));
    assert((s[0] as nat % 128) * 1 == s[0] as nat % 128);
}
/// a non-zero top group makes the value at least 128^(k-1) >= 1
pub proof fn lemma_valk_lower(s: Seq<u8>, k: nat)
    requires 1 <= k <= s.len(), s[k - 1] as nat % 128 != 0,
    ensures valk(s, k) >= 1,
{
    lemma_p128_pos((k - 1) as nat);
    assert((s[k - 1] as nat % 128) * p128((k - 1) as nat) >= 1) by (nonlinear_arith)
        requires s[k - 1] as nat % 128 >= 1, p128((k - 1) as nat) >= 1;
}
pub proof fn lemma_p128_pos(k: nat) ensures p128(k) >= 1 decreases k { if k > 0 { lemma_p128_pos((k - 1) as nat); } }

/// the shape the decoder accepts: k-1 continuation bytes, a final byte, no zero top group
pub open spec fn leb_shape(s: Seq<u8>, k: int) -> bool {
    1 <= k <= s.len() && all_cont(s, k - 1) && s[k - 1] < 0x80 && (k > 1 ==> s[k - 1] != 0)
}
/// CANONICITY: a byte string of that shape IS the canonical encoding of its value
pub proof fn lemma_shape_is_canonical(s: Seq<u8>, k: int)
    requires leb_shape(s, k),
    ensures s.subrange(0, k) =~= leb(valk(s, k as nat)),
    decreases k,
{
    if k == 1 {
        reveal_with_fuel(valk, 2);
        reveal_with_fuel(p128, 2);
        reveal_with_fuel(leb, 2);
        lemma_valk_1(s);
        assert(s[0] as nat % 128 == s[0] as nat);
        assert(leb(s[0] as nat) =~= seq![s[0]]);
    } else {
        let t = s.subrange(1, s.len() as int);
        assert(leb_shape(t, k - 1)) by {
            assert forall|j: int| 0 <= j < k - 2 implies #[trigger] t[j] >= 0x80 by { assert(s[j + 1] >= 0x80); }
        }
        lemma_shape_is_canonical(t, k - 1);
        lemma_valk_shift(s, k as nat);
        assert(t[k - 2] == s[k - 1]);
        lemma_valk_lower(t, (k - 1) as nat);
        let a = s[0] as nat % 128;
        let m = valk(t, (k - 1) as nat);
        let n = valk(s, k as nat);
        assert(n == a + 128 * m);
        assert(n >= 128);
        assert(n % 128 == a && n / 128 == m) by (nonlinear_arith) requires n == a + 128 * m, a < 128;
        assert(s[0] >= 0x80);
        assert(((n % 128) + 128) as u8 == s[0]);
        assert(leb(n) =~= seq![s[0]] + leb(m));
        assert(s.subrange(0, k) =~= seq![s[0]] + t.subrange(0, k - 1));
    }
}
pub proof fn lemma_leb_unfold(n: nat)
    ensures n < 128 ==> leb(n) =~= seq![n as u8],
        n >= 128 ==> leb(n) =~= seq![((n % 128) + 128) as u8] + leb(n / 128),
        leb(n).len() >= 1, leb(n).len() == 1 <==> n < 128,
    decreases n,
{
    if n >= 128 { lemma_leb_unfold(n / 128); }
}
/// leb(n) has the shape the decoder accepts (so the encoder's output is never rejected as overlong)
pub proof fn lemma_leb_shape(n: nat)
    ensures leb_shape(leb(n), leb(n).len() as int),
    decreases n,
{
    lemma_leb_unfold(n);
    if n >= 128 {
        let m = n / 128;
        lemma_leb_shape(m);
        lemma_leb_unfold(m);
        let t = leb(m);
        let s = leb(n);
        let b0 = ((n % 128) + 128) as u8;
        let k = s.len() as int;
        assert(s =~= seq![b0] + t);
        assert(k == t.len() + 1);
        assert(s[0] == b0 && b0 >= 0x80);
        assert forall|j: int| 0 <= j < k - 1 implies #[trigger] s[j] >= 0x80 by {
            if j > 0 { assert(s[j] == t[j - 1]); assert(t[j - 1] >= 0x80); }
        }
        assert(s[k - 1] == t[k - 2]);
        if t.len() == 1 {
            assert(m < 128 && m >= 1);
            assert(t[0] == m as u8);
        }
    }
}
/// ... and decodes back to n
pub proof fn lemma_leb_value(n: nat)
    ensures valk(leb(n), leb(n).len()) == n,
    decreases n,
{
    lemma_leb_unfold(n);
    if n < 128 {
        lemma_valk_1(leb(n));
    } else {
        let m = n / 128;
        lemma_leb_value(m);
        let t = leb(m);
        let s = leb(n);
        let b0 = ((n % 128) + 128) as u8;
        assert(s =~= seq![b0] + t);
        assert(s.subrange(1, s.len() as int) =~= t);
        lemma_valk_shift(s, s.len());
        assert(s[0] == b0);
        assert(b0 as nat % 128 == n % 128);
        assert(n == (n % 128) + 128 * m) by (nonlinear_arith) requires m == n / 128;
    }
}
/// number of bytes of leb(n) for 64-bit values: at most 10, and the tenth byte is 1
pub proof fn lemma_leb_len_u64(n: nat)
    requires n <= u64::MAX,
    ensures 1 <= leb(n).len() <= 10, leb(n).len() == 10 ==> leb(n)[9] == 1,
{
    reveal_with_fuel(leb, 11);
    assert(u64::MAX / 128 / 128 / 128 / 128 / 128 / 128 / 128 / 128 / 128 == 1) by (compute_only);
}

/// number of bytes up to and including the first byte without continuation bit (0 if there is none)
pub open spec fn lebk(s: Seq<u8>) -> int decreases s.len() {
    if s.len() == 0 { 0 } else if s[0] < 0x80 { 1 } else {
        let r = lebk(s.subrange(1, s.len() as int));
        if r == 0 { 0 } else { r + 1 }
    }
}
pub proof fn lemma_lebk(s: Seq<u8>, k: int)
    requires 1 <= k <= s.len(), all_cont(s, k - 1), s[k - 1] < 0x80,
    ensures lebk(s) == k,
    decreases k,
{
    if k > 1 {
        let t = s.subrange(1, s.len() as int);
        assert(s[0] >= 0x80);
        assert forall|j: int| 0 <= j < k - 2 implies #[trigger] t[j] >= 0x80 by { assert(s[j + 1] >= 0x80); }
        assert(t[k - 2] == s[k - 1]);
        lemma_lebk(t, k - 1);
    }
}
/// FUNCTIONAL SPEC of the unsigned LEB128 decoder: is the head of `s` an accepted encoding, of what value
pub open spec fn dec_ok(s: Seq<u8>) -> bool { accepts_u64(s, lebk(s)) }
pub open spec fn dec_val(s: Seq<u8>) -> nat { valk(s, lebk(s) as nat) }
/// decode(encode(v) ++ rest): accepted, value v, consumes exactly |leb(v)| bytes
pub proof fn lemma_dec_enc(v: nat, rest: Seq<u8>)
    requires v <= u64::MAX,
    ensures dec_ok(leb(v) + rest), dec_val(leb(v) + rest) == v, lebk(leb(v) + rest) == leb(v).len(),
        (leb(v) + rest).subrange(leb(v).len() as int, (leb(v) + rest).len() as int) =~= rest,
{
    lemma_decode_of_encode(v, rest);
    lemma_lebk(leb(v) + rest, leb(v).len() as int);
}

/// one decoder step (groups 1..9) at the level of naturals
pub proof fn lemma_step(s: Seq<u8>, k: nat, res_old: nat, res: nat, byte: u8)
    requires k <= 8, s.len() > k, s[k as int] == byte, res_old == valk(s, k), res_old < p128(k),
        res == res_old + (byte as nat % 128) * p128(k),
    ensures res == valk(s, k + 1), res < p128(k + 1),
{
    let g = byte as nat % 128;
    let pk = p128(k);
    assert(valk(s, k + 1) == valk(s, k) + (s[k as int] as nat % 128) * p128(k));
    assert(p128(k + 1) == 128 * pk);
    assert(g * pk <= 127 * pk) by (nonlinear_arith) requires g <= 127;
}
/// the tenth group (only the byte 1 is accepted there)
pub proof fn lemma_step_top(s: Seq<u8>, res_old: nat, res: nat)
    requires s.len() >= 10, s[9] == 1, res_old == valk(s, 9), res == res_old + 0x8000_0000_0000_0000nat,
    ensures res == valk(s, 10),
{
    lemma_p128_shift(9);
    assert((1u64 << 63u64) == 0x8000_0000_0000_0000u64) by (bit_vector);
    assert(p128(9) == 0x8000_0000_0000_0000nat);
    assert(valk(s, 10) == valk(s, 9) + (s[9] as nat % 128) * p128(9));
    assert(s[9] as nat % 128 == 1);
    assert(1 * p128(9) == p128(9));
}
/// two accepted shapes on the same bytes have the same length (the first byte without continuation bit)
pub proof fn lemma_shape_unique(s: Seq<u8>, k1: int, k2: int)
    requires leb_shape(s, k1), leb_shape(s, k2),
    ensures k1 == k2,
{
    if k1 < k2 { assert(s[k1 - 1] >= 0x80); }
    if k2 < k1 { assert(s[k2 - 1] >= 0x80); }
}
/// what a u64 decoder accepts: a canonical encoding of at most ten bytes whose tenth byte is 1
pub open spec fn accepts_u64(s: Seq<u8>, k: int) -> bool { leb_shape(s, k) && k <= 10 && (k == 10 ==> s[9] == 1) }
/// ROUND TRIP at the level of byte strings: whatever follows it, the canonical encoding of a u64
/// has the accepted shape and its value is v.  Together with leb128_u64's contract
/// (Ok whenever an accepted shape is present; result == valk of that shape; shapes are unique)
/// this gives  leb128_u64(leb(v) ++ rest) == Ok((rest, v)).
pub proof fn lemma_decode_of_encode(v: nat, rest: Seq<u8>)
    requires v <= u64::MAX,
    ensures accepts_u64(leb(v) + rest, leb(v).len() as int), valk(leb(v) + rest, leb(v).len()) == v,
{
    let e = leb(v);
    let s = e + rest;
    let k = e.len() as int;
    lemma_leb_shape(v);
    lemma_leb_value(v);
    lemma_leb_len_u64(v);
    assert forall|j: int| 0 <= j < k implies s[j] == e[j] by {}
    assert forall|j: int| 0 <= j < k - 1 implies #[trigger] s[j] >= 0x80 by { assert(e[j] >= 0x80); }
    lemma_valk_prefix(s, e, k as nat);
}

//@ fn rust/automerge/src/storage/parse/leb128.rs | leb128_u64
//@   ret r
//@   attr #[verifier::loop_isolation(false)]
//@   spec
    requires input.wf(),
    ensures
        // C15/C17: consumes 1..=10 bytes: the last without continuation bit, the others with it
        r matches Ok((i, v)) ==> ({ let k = i.position - input.position; 1 <= k <= 10 && input.advanced(i, k)
            && i.wf() && (input.aligned() ==> i.aligned())
            // canonical only (no overlong encodings), value = sum of the 7-bit groups
            && accepts_u64(input.bytes@, k) && v as nat == valk(input.bytes@, k as nat) }),
        // C13: Incomplete exactly when the input ends inside an encoding -- so every strict
        // prefix of an accepted encoding is Incomplete, never Ok and never another error
        (r matches Err(ParseError::Incomplete(_))) <==> (input.bytes.len() < 10 && all_cont(input.bytes@, input.bytes.len() as int)),
        // C19: every canonical encoding of a u64 is accepted
        forall|k: int| accepts_u64(input.bytes@, k) ==> r is Ok,
        // the same, against the functional spec dec_ok / dec_val / lebk
        r is Ok <==> dec_ok(input.bytes@),
        r matches Ok((i, v)) ==> i.position - input.position == lebk(input.bytes@) && v as nat == dec_val(input.bytes@),
//@   before /^            return Ok\(\(input, res\)\);$/
            proof { lemma_lebk(orig.bytes@, k); }
//@   before /^    loop \{$/
    let ghost orig = input;
    let ghost mut k: int = 0;
    proof { assert(orig.bytes@.subrange(0, orig.bytes.len() as int) =~= orig.bytes@); lemma_p128_shift(0); }
//@   loop 1
        invariant
            0 <= k <= 9, shift == 7 * k, orig.wf(), input.wf(),
            orig.advanced(input, k), all_cont(orig.bytes@, k),
            orig.aligned() ==> input.aligned(),
            res as nat == valk(orig.bytes@, k as nat), (res as nat) < p128(k as nat),
        decreases 10 - k,
//@   before /let \(i, byte\) = take1\(input\)\?;/
        proof { assert(input.bytes.len() == orig.bytes.len() - k); }
        let ghost res_old = res;
//@   after /input = i;/
        proof {
            assert(byte == orig.bytes[k]);
            assert(input.bytes@ =~= orig.bytes@.subrange(k + 1, orig.bytes.len() as int));
            assert(byte & 0x7F <= 0x7f) by (bit_vector);
            assert((byte & 0x80) == 0 <==> byte < 0x80) by (bit_vector);
            lemma_p128_shift(k as nat);
            if k <= 8 { lemma_or_add(res, byte, shift); }
        }
//@   after /shift \+= 7;/
        proof {
            if k <= 8 {
                // res == res_old + (byte % 128) * 2^(7k)   (lemma_or_add, bit-vector)   and   2^(7k) == p128(k)
                assert(res as nat == res_old as nat + (byte as nat % 128) * p128(k as nat));
                lemma_step(orig.bytes@, k as nat, res_old as nat, res as nat, byte);
            } else if byte == 1 {
                lemma_or_add_top(res_old, byte);
                lemma_step_top(orig.bytes@, res_old as nat, res as nat);
            }
            k = k + 1;
            assert(orig.bytes@[k - 1] == byte); assert(orig.advanced(input, k)); assert(all_cont(orig.bytes@, k - 1));
            assert((byte & 0x80) == 0 ==> orig.bytes[k - 1] < 0x80);
        }
//@ end

/// value of a k-byte signed LEB128 string: the unsigned group sum, minus 128^k when the sign bit (0x40 of the last group) is set
pub open spec fn svalk(s: Seq<u8>, k: nat) -> int {
    if k >= 1 && s[k - 1] as nat % 128 >= 64 { valk(s, k) as int - p128(k) as int } else { valk(s, k) as int }
}
/// sign extension step: OR-ing `-1 << s` onto a non-negative value below 2^s subtracts 2^s
pub proof fn lemma_sign_extend(res: i64, s: u32)
    requires 7 <= s <= 63, 0 <= res, (res as u64) < (1u64 << (s as u64)),
    ensures (res | (-1i64 << s)) as int == res as int - (1u64 << (s as u64)) as int,
{
    assert((res | (-1i64 << s)) as int == res as int - (1u64 << (s as u64)) as int) by (bit_vector)
        requires 7 <= s <= 63, 0 <= res, (res as u64) < (1u64 << (s as u64));
}
/// one decoding step on i64 (groups 1..9): same as the unsigned step, the accumulator stays non-negative
pub proof fn lemma_or_add_i(res: i64, b: u8, s: u32)
    requires s <= 56, 0 <= res, (res as u64) < (1u64 << (s as u64)),
    ensures (res | (((b & 0x7F) as i64) << s)) as int == res as int + ((b & 0x7F) as int) * (1u64 << (s as u64)) as int,
        0 <= (res | (((b & 0x7F) as i64) << s)),
        ((res | (((b & 0x7F) as i64) << s)) as u64) < (1u64 << ((s + 7) as u64)),
{
    assert((res | (((b & 0x7F) as i64) << s)) as u64 == (res as u64) + ((b & 0x7F) as u64) * (1u64 << (s as u64))) by (bit_vector) requires s <= 56, 0 <= res, (res as u64) < (1u64 << (s as u64));
    assert(0 <= (res | (((b & 0x7F) as i64) << s))) by (bit_vector) requires s <= 56, 0 <= res, (res as u64) < (1u64 << (s as u64));
    assert(((res | (((b & 0x7F) as i64) << s)) as u64) < (1u64 << ((s + 7) as u64))) by (bit_vector) requires s <= 56, 0 <= res, (res as u64) < (1u64 << (s as u64));
}

/// the tenth signed group: 0x7f lands on the sign bit
pub proof fn lemma_or_top_i(res: i64, b: u8)
    requires 0 <= res, b == 0 || b == 0x7f,
    ensures b == 0 ==> (res | (((b & 0x7F) as i64) << 63u32)) == res,
        b == 0x7f ==> (res | (((b & 0x7F) as i64) << 63u32)) as int == res as int - 0x8000_0000_0000_0000int,
{
    assert(b == 0 ==> (res | (((b & 0x7F) as i64) << 63u32)) == res) by (bit_vector);
    assert(b == 0x7f ==> (res | (((b & 0x7F) as i64) << 63u32)) as int == res as int - 0x8000_0000_0000_0000int) by (bit_vector) requires 0 <= res;
}
pub proof fn lemma_svalk_top(s: Seq<u8>, res_old: nat)
    requires s.len() >= 10, s[9] == 0 || s[9] == 0x7f, res_old == valk(s, 9), res_old < p128(9),
    ensures s[9] == 0 ==> svalk(s, 10) == res_old as int,
        s[9] == 0x7f ==> svalk(s, 10) == res_old as int - 0x8000_0000_0000_0000int,
{
    lemma_p128_shift(9);
    assert((1u64 << 63u64) == 0x8000_0000_0000_0000u64) by (bit_vector);
    assert(p128(9) == 0x8000_0000_0000_0000nat);
    assert(p128(10) == 128 * p128(9));
    assert(valk(s, 10) == valk(s, 9) + (s[9] as nat % 128) * p128(9));
    if s[9] == 0x7f {
        assert(s[9] as nat % 128 == 127);
        assert(127 * p128(9) == 127 * 0x8000_0000_0000_0000nat);
    } else {
        assert(s[9] as nat % 128 == 0);
        assert(0 * p128(9) == 0);
    }
}

//@ fn rust/automerge/src/storage/parse/leb128.rs | leb128_i64
//@   ret r
//@   attr #[verifier::loop_isolation(false)]
//@   spec
    requires input.wf(),
    ensures
        r matches Ok((i, v)) ==> ({ let k = i.position - input.position; 1 <= k <= 10 && input.advanced(i, k)
            && all_cont(input.bytes@, k - 1) && input.bytes[k - 1] < 0x80 && i.wf() && (input.aligned() ==> i.aligned())
            // value: the 7-bit groups, little end first, sign-extended from bit 6 of the last group
            && v as int == svalk(input.bytes@, k as nat) }),
        (r matches Err(ParseError::Incomplete(_))) <==> (input.bytes.len() < 10 && all_cont(input.bytes@, input.bytes.len() as int)),
//@   before /^    loop \{$/
    let ghost orig = input;
    let ghost mut k: int = 0;
    proof { assert(orig.bytes@.subrange(0, orig.bytes.len() as int) =~= orig.bytes@); lemma_p128_shift(0); }
//@   loop 1
        invariant
            0 <= k <= 9, shift == 7 * k, orig.wf(), input.wf(),
            orig.advanced(input, k), all_cont(orig.bytes@, k),
            orig.aligned() ==> input.aligned(),
            0 <= res, res as nat == valk(orig.bytes@, k as nat), (res as nat) < p128(k as nat),
        decreases 10 - k,
//@   before /let \(i, byte\) = take1\(input\)\?;/
        proof { assert(input.bytes.len() == orig.bytes.len() - k); }
        let ghost res_old = res;
//@   after /input = i;/
        proof {
            assert(byte == orig.bytes[k]);
            assert(input.bytes@ =~= orig.bytes@.subrange(k + 1, orig.bytes.len() as int));
            assert(byte & 0x7F <= 0x7f) by (bit_vector);
            assert((byte & 0x80) == 0 <==> byte < 0x80) by (bit_vector);
            assert((byte & 0x7F) == byte % 128) by (bit_vector);
            assert((byte & 0x40 > 0) <==> (byte % 128 >= 64)) by (bit_vector);
            lemma_p128_shift(k as nat);
            if k <= 8 { lemma_or_add_i(res, byte, shift as u32); }
        }
//@   after /shift \+= 7;/
        proof {
            if k <= 8 {
                assert(res as nat == res_old as nat + (byte as nat % 128) * p128(k as nat));
                lemma_step(orig.bytes@, k as nat, res_old as nat, res as nat, byte);
            }
            k = k + 1;
            assert(orig.bytes@[k - 1] == byte); assert(orig.advanced(input, k)); assert(all_cont(orig.bytes@, k - 1));
            assert((byte & 0x80) == 0 ==> orig.bytes[k - 1] < 0x80);
            if k <= 9 { lemma_p128_shift(k as nat); }
            if k == 10 && (byte == 0 || byte == 0x7f) {
                lemma_or_top_i(res_old, byte);
                lemma_svalk_top(orig.bytes@, res_old as nat);
            }
        }
//@   before /^                res \|= -1 << shift;$/
                proof { lemma_sign_extend(res, shift as u32); }
//@ end

//@ fn rust/automerge/src/storage/parse/leb128.rs | leb128_u32
//@   ret r
//@   spec
    requires input.wf(),
    ensures
        r matches Ok((i, v)) ==> ({ let k = i.position - input.position; 1 <= k <= 10 && input.advanced(i, k) && i.wf() && (input.aligned() ==> i.aligned())
            && accepts_u64(input.bytes@, k) && v as nat == valk(input.bytes@, k as nat) }),
        // (only this direction: the range-error closure has no contract, so `Incomplete => truncated` is not provable here)
        (input.bytes.len() < 10 && all_cont(input.bytes@, input.bytes.len() as int)) ==> (r matches Err(ParseError::Incomplete(_))),
        // every canonical encoding of a value that fits u32 is accepted
        forall|k: int| accepts_u64(input.bytes@, k) && valk(input.bytes@, k as nat) <= u32::MAX ==> r is Ok,
//@   after /let \(i, num\) = leb128_u64\(input\)\?;/
    proof {
        let kk = i.position - input.position;
        assert forall|k: int| accepts_u64(input.bytes@, k) implies k == kk by { lemma_shape_unique(input.bytes@, k, kk); }
    }
//@ end

//@ fn rust/automerge/src/storage/parse/leb128.rs | nonzero_leb128_u64
//@   ret r
//@   spec
    requires input.wf(),
    ensures
        r matches Ok((i, v)) ==> ({ let k = i.position - input.position; 1 <= k <= 10 && input.advanced(i, k) && i.wf()
            && accepts_u64(input.bytes@, k) && v.get() as nat == valk(input.bytes@, k as nat) }),
        (input.bytes.len() < 10 && all_cont(input.bytes@, input.bytes.len() as int)) ==> (r matches Err(ParseError::Incomplete(_))),
//@ end

//@ fn rust/automerge/src/storage/parse.rs | length_prefixed_bytes
//@   ret r
//@   spec
    requires input.wf(),
    ensures
        // C17: whatever the length prefix says, the result is a SUB-SLICE of the input (no allocation, no read
        // beyond the input) ...
        r matches Ok((i, b)) ==> ({ let k = lebk(input.bytes@); let n = dec_val(input.bytes@);
            dec_ok(input.bytes@) && k + n <= input.bytes.len() && b@ =~= input.bytes@.subrange(k, k + n) && input.advanced(i, k + n) && i.wf() }),
        // ... and a well-formed prefix whose payload is present is accepted (C19: decode of an encoded value)
        (dec_ok(input.bytes@) && lebk(input.bytes@) + dec_val(input.bytes@) <= input.bytes.len()) ==> r is Ok,
//@   before /^    take_n\(len as usize, i\)$/
    proof {
        let k = lebk(input.bytes@);
        assert(i.bytes@ =~= input.bytes@.subrange(k, input.bytes.len() as int));
        assert(forall|m: int| 0 <= m <= i.bytes.len() ==> #[trigger] i.bytes@.subrange(0, m) =~= input.bytes@.subrange(k, k + m));
    }
//@ end

//@ fn rust/automerge/src/storage/parse.rs | change_hash
//@   ret r
//@   spec
    requires input.wf(),
    ensures 32 <= input.bytes.len() <==> r is Ok,
        r is Err ==> r matches Err(ParseError::Incomplete(_)),
        r matches Ok((i, h)) ==> h.0@ =~= input.bytes@.subrange(0, 32) && input.advanced(i, 32) && i.wf(),
//@ end

//@ fn rust/automerge/src/storage/parse.rs | utf_8
//@   ret r
//@   spec
    requires input.wf(),
    ensures
        // C39: only validated UTF-8 becomes a String
        r matches Ok((i, s)) ==> len <= input.bytes.len() && valid_utf8(input.bytes@.subrange(0, len as int))
            && string_bytes(s) == input.bytes@.subrange(0, len as int) && input.advanced(i, len as int) && i.wf(),
        len > input.bytes.len() ==> (r matches Err(ParseError::Incomplete(_))),
        (len <= input.bytes.len() && !valid_utf8(input.bytes@.subrange(0, len as int))) ==> r is Err,
//@ end

//@@ body-end
} // verus!
fn main() {}
