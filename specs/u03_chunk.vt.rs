// U03 chunk -- rust/automerge/src/storage/chunk.rs  (engine V part: the hash preimage)
#![feature(allocator_api)]
use vstd::prelude::*;
use std::ops::Range;
verus! {

//@ item rust/automerge/src/types.rs | const HASH_SIZE
//@ item rust/automerge/src/types.rs | struct ChangeHash
//@ item rust/automerge/src/storage/chunk.rs | enum ChunkType

pub open spec fn ct_u8(ct: ChunkType) -> u8 { match ct { ChunkType::Document => 0, ChunkType::Change => 1, ChunkType::Compressed => 2, ChunkType::Bundle => 3 } }
impl vstd::std_specs::convert::FromSpecImpl<ChunkType> for u8 {
    open spec fn obeys_from_spec() -> bool { true }
    open spec fn from_spec(ct: ChunkType) -> u8 { ct_u8(ct) }
}
impl From<ChunkType> for u8 {
//@ fn rust/automerge/src/storage/chunk.rs | impl From<ChunkType> for u8 | from
//@   ret r
//@   spec
        ensures r == ct_u8(ct),
//@ end
}

// ---- assumed environment (trusted): the `leb128` crate writer and `sha2::Sha256`
/// canonical unsigned LEB128 (same definition as in unit u02; the writer's conformance to it is
/// checked by Kani harness u03_leb128_writer_matches_parser for all u64)
pub open spec fn leb(n: nat) -> Seq<u8> decreases n {
    if n < 128 { seq![n as u8] } else { seq![((n % 128) + 128) as u8] + leb(n / 128) }
}
/// SHA-256 as an uninterpreted function of the byte string fed to the hasher
pub uninterp spec fn sha256(s: Seq<u8>) -> Seq<u8>;
pub mod leb128 { pub mod write {
    use vstd::prelude::*;
    verus!{
    #[verifier::external_body]
    pub fn unsigned(out: &mut Vec<u8>, n: u64) -> (r: Result<usize, ()>) ensures final(out)@ == old(out)@ + super::super::leb(n as nat), r is Ok { unimplemented!() }
    }
}}
#[verifier::external_body]
pub struct Sha256 { _p: () }
pub struct Out32(pub [u8; 32]);
impl Sha256 {
    pub uninterp spec fn view(&self) -> Seq<u8>;
    #[verifier::external_body]
    pub fn new() -> (r: Sha256) ensures r@ == Seq::<u8>::empty() { unimplemented!() }
    #[verifier::external_body]
    pub fn update(&mut self, d: &[u8]) ensures final(self)@ == old(self)@ + d@ { unimplemented!() }
    #[verifier::external_body]
    pub fn finalize(self) -> (r: Out32) ensures r.0@ == sha256(self@) { unimplemented!() }
}
impl Out32 { pub fn into(self) -> (r: [u8; 32]) ensures r == self.0 { self.0 } }

impl ChangeHash {
//@ fn rust/automerge/src/types.rs | impl ChangeHash | as_bytes
//@   ret r
//@   spec
        ensures r@ == self.0@,
//@ end

//@ fn rust/automerge/src/types.rs | impl ChangeHash | checksum
//@   ret r
//@   spec
        ensures r@ == self.0@.subrange(0, 4),
//@ end
}

//@ fn rust/automerge/src/storage/chunk.rs | hash
//@   ret r
//@   spec
    // C10: the hash of a chunk is SHA-256 over  type byte ++ LEB128(len) ++ data  -- every data byte,
    // the type and the length are in the preimage
    ensures r.0@ == sha256(seq![ct_u8(typ)] + leb(data.len() as nat) + data@)
//@ end

// ================================================================ Header::{new, with_data, len, write, data_bytes, hash, checksum}
//@ item rust/automerge/src/storage.rs | const MAGIC_BYTES
/// std: `Vec::extend(x)` appends the items of x (ASSUMED; vstd has no spec for Extend) -- used with `[u8; 4]` arguments
pub uninterp spec fn iter_items<I, T>(it: I) -> Seq<T>;
pub assume_specification<T, A: core::alloc::Allocator, I: IntoIterator<Item = T>>[ <Vec<T, A> as Extend<T>>::extend::<I> ](v: &mut Vec<T, A>, iter: I)
    ensures final(v)@ == old(v)@ + iter_items::<I, T>(iter);
#[verifier::external_body]
pub broadcast proof fn axiom_iter_items_array4(a: [u8; 4]) ensures #[trigger] iter_items::<[u8; 4], u8>(a) == a@ {}
/// columnar::encoding::leb128::ulebsize -- ASSUMED to be the length of the canonical encoding
/// (Kani harness u03_leb128_writer_matches_parser checks ulebsize(v) == bytes written, for all u64)
#[verifier::external_body]
pub fn ulebsize(val: u64) -> (r: u64) ensures r == leb(val as nat).len(), 1 <= r <= 10 { unimplemented!() }
//@ item rust/automerge/src/storage/chunk.rs | struct CheckSum
//@ item rust/automerge/src/storage/chunk.rs | struct Header
impl vstd::std_specs::convert::FromSpecImpl<[u8; 4]> for CheckSum {
    open spec fn obeys_from_spec() -> bool { true }
    open spec fn from_spec(raw: [u8; 4]) -> CheckSum { CheckSum(raw) }
}
impl From<[u8; 4]> for CheckSum {
//@ fn rust/automerge/src/storage/chunk.rs | impl From<[u8; 4]> for CheckSum | from
//@   ret r
//@   spec
        ensures r == CheckSum(raw),
//@ end
}
impl CheckSum {
//@ fn rust/automerge/src/storage/chunk.rs | impl CheckSum | bytes
//@   ret r
//@   spec
        ensures r == self.0,
//@ end
}

/// wire form of a chunk header
pub open spec fn header_enc(h: Header) -> Seq<u8> {
    MAGIC_BYTES@ + h.checksum.0@ + seq![ct_u8(h.chunk_type)] + leb(h.data_len as nat)
}
impl Header {
//@ fn rust/automerge/src/storage/chunk.rs | impl Header | new
//@   ret r
//@   spec
        ensures
            r.chunk_type == chunk_type, r.data_len == data.len(),
            // C10: the stored hash is SHA-256 over  type ++ leb(len) ++ data ...
            r.hash.0@ == sha256(seq![ct_u8(chunk_type)] + leb(data.len() as nat) + data@),
            // C14: ... and the checksum written to the wire is its first four bytes
            r.checksum.0@ == r.hash.0@.subrange(0, 4),
            r.header_size == header_enc(r).len(),
//@ end

//@ fn rust/automerge/src/storage/chunk.rs | impl Header | with_data
//@   ret r
//@   spec
        ensures
            r.chunk_type == chunk_type, r.data_len == data.len(), r.checksum == self.checksum,
            r.hash.0@ == sha256(seq![ct_u8(chunk_type)] + leb(data.len() as nat) + data@),
            r.header_size == header_enc(r).len(),
//@ end

//@ fn rust/automerge/src/storage/chunk.rs | impl Header | len
//@   ret r
//@   spec
        ensures r == self.header_size,
//@ end

//@ fn rust/automerge/src/storage/chunk.rs | impl Header | write
//@   spec
        ensures
            // C10/C14: what is written is exactly magic ++ checksum ++ type ++ leb(data_len)
            final(out)@ == old(out)@ + header_enc(*self),
//@   before /out\.extend\(MAGIC_BYTES\);/
        proof { axiom_iter_items_array4(MAGIC_BYTES); axiom_iter_items_array4(self.checksum.0); }
//@ end

//@ fn rust/automerge/src/storage/chunk.rs | impl Header | data_bytes
//@   ret r
//@   spec
        requires self.header_size + self.data_len <= usize::MAX,
        ensures r.start == self.header_size, r.end == self.header_size + self.data_len,
//@ end

//@ fn rust/automerge/src/storage/chunk.rs | impl Header | hash
//@   ret r
//@   spec
        ensures r == self.hash,
//@ end

//@ fn rust/automerge/src/storage/chunk.rs | impl Header | checksum
//@   ret r
//@   spec
        ensures r == self.checksum,
//@ end
}

// ================================================================ Chunk::checksum_valid (C14)
/// the four chunk bodies are opaque here; each exposes the ghost fact "its stored checksum matches its hash"
pub struct Unverified;
#[verifier::external_body] pub struct Document<'a> { _p: core::marker::PhantomData<&'a ()> }
#[verifier::external_body] #[verifier::reject_recursive_types(V)] pub struct Change<'a, V> { _p: core::marker::PhantomData<&'a V> }
#[verifier::external_body] #[verifier::reject_recursive_types(V)] pub struct BundleStorage<'a, V> { _p: core::marker::PhantomData<&'a V> }
#[verifier::external_body] pub struct Compressed<'a> { _p: core::marker::PhantomData<&'a ()> }
impl<'a> Document<'a> {
    pub uninterp spec fn spec_valid(&self) -> bool;
    #[verifier::external_body] pub fn checksum_valid(&self) -> (r: bool) ensures r == self.spec_valid() { unimplemented!() }
}
impl<'a, V> Change<'a, V> {
    pub uninterp spec fn spec_valid(&self) -> bool;
    #[verifier::external_body] pub fn checksum_valid(&self) -> (r: bool) ensures r == self.spec_valid() { unimplemented!() }
    #[verifier::external_body] pub fn checksum(&self) -> CheckSum { unimplemented!() }
}
impl<'a, V> BundleStorage<'a, V> {
    pub uninterp spec fn spec_valid(&self) -> bool;
    #[verifier::external_body] pub fn checksum_valid(&self) -> (r: bool) ensures r == self.spec_valid() { unimplemented!() }
}
impl<'a> Compressed<'a> { #[verifier::external_body] pub fn checksum(&self) -> CheckSum { unimplemented!() } }
//@ item rust/automerge/src/storage/chunk.rs | enum Chunk

impl<'a> Chunk<'a> {
    /// "the body's stored checksum matches the hash of its bytes", per variant
    pub open spec fn body_valid(&self) -> bool {
        match self {
            Chunk::Document(d) => d.spec_valid(),
            Chunk::Change(c) => c.spec_valid(),
            Chunk::CompressedChange(change, _) => change.spec_valid(),
            Chunk::Bundle(b) => b.spec_valid(),
        }
    }
//@ fn rust/automerge/src/storage/chunk.rs | impl<'a> Chunk<'a> | checksum_valid
//@   ret r
//@   spec
        // C14: a chunk is only reported valid when the checksum of its (decompressed) body matches --
        // for EVERY variant, so no chunk type can bypass the check load relies on
        ensures r ==> self.body_valid(),
            // and an intact uncompressed chunk is accepted
            (!(self is CompressedChange) && self.body_valid()) ==> r,
//@ end
}

} // verus!
fn main() {}
