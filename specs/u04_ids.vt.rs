// U04 ids -- id resolution: types.rs (OpId), automerge.rs (exid_to_opid, op_cursor_to_opid),
// op_set2/op_set.rs (get_actor_safe)   (engine V)
use vstd::prelude::*;
use std::cmp::Ordering;
use std::sync::Arc;
verus! {

// ---------------------------------------------------------------- assumed environment (trusted)
/// ActorId is opaque here: only equality and clone are used by the functions under contract
#[verifier::external_body]
pub struct ActorId { _p: () }
impl vstd::std_specs::cmp::PartialEqSpecImpl for ActorId {
    open spec fn obeys_eq_spec() -> bool { true }
    open spec fn eq_spec(&self, o: &Self) -> bool { *self == *o }
}
impl PartialEq for ActorId { #[verifier::external_body] fn eq(&self, o: &Self) -> (r: bool) ensures r == (*self == *o) { unimplemented!() } }
impl Clone for ActorId { #[verifier::external_body] fn clone(&self) -> (r: Self) ensures r == *self { unimplemented!() } }

//@ item rust/automerge/src/exid.rs | enum ExId
impl ExId { #[verifier::external_body] pub fn to_string(&self) -> String { unimplemented!() } }
//@ item rust/automerge/src/cursor.rs | enum MoveCursor
//@ item rust/automerge/src/cursor.rs | struct OpCursor
//@ item rust/automerge/src/cursor.rs | enum Cursor
/// only the variants the functions under contract construct
pub enum AutomergeError { InvalidObjId(String), InvalidCursor(Cursor), Other }
//@ item rust/automerge/src/types.rs | struct OpId

pub struct Clock(pub Vec<u32>);
impl Clock {
    /// assumed total; its result only selects between Ok and Err
    #[verifier::external_body]
    pub fn covers(&self, id: &OpId) -> bool { unimplemented!() }
}
/// the part of OpSet / Automerge the functions under contract touch
pub struct OpSet { pub actors: Vec<ActorId> }
/// `own`: the document's actor (automerge.rs `enum Actor`, contracts below): either a cached table index or the id itself
pub struct Automerge { pub ops: OpSet, pub own: Ghost<Option<usize>>, pub own_id: Ghost<ActorId> }
impl Automerge {
    /// read-only accessors of the real Automerge (ASSUMED; their bodies match on `self.actor`): the own actor id, and its
    /// table index IF it is cached -- an uncached (`Unused`) actor gives None even when the id is in the table
    #[verifier::external_body]
    pub fn get_actor(&self) -> (r: &ActorId) ensures *r == self.own_id@ { unimplemented!() }
    #[verifier::external_body]
    pub fn get_actor_index(&self) -> (r: Option<usize>)
        ensures r == self.own@, r matches Some(i) ==> i < self.ops.actors.len() && self.ops.actors[i as int] == self.own_id@ { unimplemented!() }
}

impl OpSet {
    /// ASSUMED contract of `lookup_actor` (a `binary_search` over the actor table, which rests on
    /// the document invariant "actors sorted and duplicate-free" -- not under contract)
    #[verifier::external_body]
    pub fn lookup_actor(&self, actor: &ActorId) -> (r: Option<usize>)
        ensures r matches Some(i) ==> i < self.actors.len() && self.actors[i as int] == *actor,
                r is None ==> forall|i: int| 0 <= i < self.actors.len() ==> self.actors[i] != *actor,
    { unimplemented!() }

//@ fn rust/automerge/src/op_set2/op_set.rs | impl OpSet | get_actor_safe
//@   ret r
//@   spec
        ensures idx < self.actors.len() ==> r == Some(&self.actors[idx as int]), idx >= self.actors.len() ==> r is None
//@ end
}

impl OpId {
    pub open spec fn spec_counter(&self) -> u64 { self.0 as u64 }
    pub open spec fn spec_actor(&self) -> usize { self.1 as usize }

//@ fn rust/automerge/src/types.rs | impl OpId | new
//@   ret r
//@   spec
        // the two `unwrap()`s of the real body: this precondition is what C37 asks every caller
        // reachable from a user-supplied id or cursor to establish
        requires counter <= u32::MAX, actor <= u32::MAX,
        ensures r.0 == counter, r.1 == actor,
//@ end
}

// ---- the document's own cached actor index follows actor-table shifts (automerge.rs, enum Actor)
//@ item rust/automerge/src/automerge.rs | enum Actor
impl Actor {
//@ fn rust/automerge/src/automerge.rs | impl Actor | remove_actor
//@   spec
        requires index < actors.len(),
        ensures
            // C30: removing table entry `index` keeps a cached index pointing at the SAME actor,
            // or (if it was that entry) falls back to carrying the actor id itself
            *old(self) matches Actor::Cached(i) ==> (
                (i == index ==> *final(self) == Actor::Unused(actors[index as int]))
                && (i > index ==> *final(self) == Actor::Cached((i - 1) as usize))
                && (i < index ==> *final(self) == Actor::Cached(i))),
            *old(self) is Unused ==> *final(self) == *old(self),
//@ end

//@ fn rust/automerge/src/automerge.rs | impl Actor | rewrite_with_new_actor
//@   spec
        requires *old(self) matches Actor::Cached(i) ==> i < usize::MAX,
        ensures
            *old(self) matches Actor::Cached(i) ==> *final(self) == Actor::Cached(if i >= index { (i + 1) as usize } else { i }),
            *old(self) is Unused ==> *final(self) == *old(self),
//@ end
}

// ---- actor-table shifts of op ids (types.rs) and of the ids inside pending patch events (patches/patch_log.rs)
pub open spec fn shift_up(o: OpId, idx: usize) -> OpId { if o.1 as usize >= idx { OpId(o.0, (o.1 + 1) as u32) } else { o } }
pub open spec fn shift_down(o: OpId, idx: usize) -> Option<OpId> {
    if o.1 as usize > idx { Some(OpId(o.0, (o.1 - 1) as u32)) } else if o.1 as usize == idx { None } else { Some(o) }
}
impl OpId {
//@ fn rust/automerge/src/types.rs | impl OpId | actor
//@   ret r
//@   spec
        ensures r == self.1 as usize,
//@ end

//@ fn rust/automerge/src/types.rs | impl OpId | with_new_actor
//@   ret r
//@   spec
        requires self.1 < u32::MAX,
        ensures r == shift_up(self, idx),
//@ end

//@ fn rust/automerge/src/types.rs | impl OpId | without_actor
//@   ret r
//@   spec
        ensures r == shift_down(self, idx),
//@ end
}
#[verifier::external_body] pub struct HValue { _p: () }
pub use HValue as Value;
#[verifier::external_body] pub struct MarkSet { _p: () }
#[verifier::external_body] pub struct MarkAccumulator { _p: () }
impl PartialEq for HValue { #[verifier::external_body] fn eq(&self, o: &Self) -> bool { unimplemented!() } }
impl PartialEq for MarkSet { #[verifier::external_body] fn eq(&self, o: &Self) -> bool { unimplemented!() } }
impl PartialEq for MarkAccumulator { #[verifier::external_body] fn eq(&self, o: &Self) -> bool { unimplemented!() } }
impl Clone for HValue { #[verifier::external_body] fn clone(&self) -> (r: Self) ensures r == *self { unimplemented!() } }
impl Clone for MarkSet { #[verifier::external_body] fn clone(&self) -> (r: Self) ensures r == *self { unimplemented!() } }
impl Clone for MarkAccumulator { #[verifier::external_body] fn clone(&self) -> (r: Self) ensures r == *self { unimplemented!() } }
//@ item rust/automerge/src/patches/patch_log.rs | enum Event
impl Event {
    /// the op id an event carries, if any
    pub open spec fn spec_id(&self) -> Option<OpId> {
        match self {
            Event::PutMap { id, .. } => Some(*id),
            Event::PutSeq { id, .. } => Some(*id),
            Event::Insert { id, .. } => Some(*id),
            Event::IncrementMap { id, .. } => Some(*id),
            Event::IncrementSeq { id, .. } => Some(*id),
            _ => None,
        }
    }
    /// same event with another id
    pub open spec fn with_id(self, nid: OpId) -> Event {
        match self {
            Event::PutMap { key, value, id, conflict } => Event::PutMap { key, value, id: nid, conflict },
            Event::PutSeq { index, value, id, conflict } => Event::PutSeq { index, value, id: nid, conflict },
            Event::Insert { index, value, id, conflict } => Event::Insert { index, value, id: nid, conflict },
            Event::IncrementMap { key, n, id } => Event::IncrementMap { key, n, id: nid },
            Event::IncrementSeq { index, n, id } => Event::IncrementSeq { index, n, id: nid },
            e => e,
        }
    }
//@ fn rust/automerge/src/patches/patch_log.rs | impl Event | with_new_actor
//@   ret r
//@   spec
        requires self.spec_id() matches Some(o) ==> o.1 < u32::MAX,
        ensures
            // C30: EVERY id-carrying event is re-indexed when an actor is inserted; nothing else changes
            self.spec_id() matches Some(o) ==> r == self.with_id(shift_up(o, idx)),
            self.spec_id() is None ==> r == self,
//@ end

//@ fn rust/automerge/src/patches/patch_log.rs | impl Event | without_actor
//@   ret r
//@   spec
        ensures
            self.spec_id() matches Some(o) ==> (shift_down(o, idx) matches Some(n) ==> r == Some(self.with_id(n))) && (shift_down(o, idx) is None ==> r is None),
            self.spec_id() is None ==> r == Some(self),
//@ end
}

/// assumption (reported): a document has at most u32::MAX actors
pub open spec fn table_fits(a: &Automerge) -> bool { a.ops.actors.len() <= u32::MAX }

//@ item rust/automerge/src/types.rs | struct ObjId
#[verifier::external_body] pub struct ObjMeta { _p: () }
impl ObjMeta { pub uninterp spec fn spec_id(&self) -> ObjId; }
impl Automerge {
    /// ASSUMED contract of get_obj_meta (object index lookup): the meta it returns is for the id asked
    #[verifier::external_body]
    pub fn get_obj_meta(&self, obj: ObjId) -> (r: Result<ObjMeta, AutomergeError>)
        ensures r matches Ok(m) ==> m.spec_id() == obj { unimplemented!() }

//@ fn rust/automerge/src/automerge.rs | impl Automerge | exid_to_obj
//@   ret r
//@   spec
        requires table_fits(self),
        ensures
            // C37 / C30: an id whose actor this replica does not know is an error, never another object; a resolved
            // object is the one named by (counter, actor)
            id matches ExId::Id(ctr, actor, idx) ==> ((forall|i: int| 0 <= i < self.ops.actors.len() ==> self.ops.actors[i] != actor) ==> r is Err),
            id matches ExId::Id(ctr, actor, idx) ==> (r matches Ok(m) ==> m.spec_id().0.spec_counter() == ctr
                && m.spec_id().0.spec_actor() < self.ops.actors.len() && self.ops.actors[m.spec_id().0.spec_actor() as int] == actor),
//@ end

//@ fn rust/automerge/src/automerge.rs | impl Automerge | exid_to_opid
//@   ret r
//@   spec
        requires table_fits(self),
        ensures
            id is Root ==> (r matches Ok(o) && o.0 == 0 && o.1 == 0),
            // C30/C19: an id resolves to ITS OWN actor whatever the hint index says ...
            id matches ExId::Id(ctr, actor, idx) ==> (r matches Ok(o) ==> o.spec_counter() == ctr && o.spec_actor() < self.ops.actors.len() && self.ops.actors[o.spec_actor() as int] == actor),
            // ... and an actor this replica does not know gives an error, never another actor's object
            id matches ExId::Id(ctr, actor, idx) ==> ((forall|i: int| 0 <= i < self.ops.actors.len() ==> self.ops.actors[i] != actor) ==> r is Err),
            // C19: a known actor with an in-range counter does resolve (ids decode to usable ids)
            id matches ExId::Id(ctr, actor, idx) ==> ((exists|i: int| 0 <= i < self.ops.actors.len() && self.ops.actors[i] == actor) && ctr <= u32::MAX ==> r is Ok),
//@ end

//@ fn rust/automerge/src/automerge.rs | impl Automerge | op_cursor_to_opid
//@   ret r
//@   spec
        requires table_fits(self),
        ensures r matches Ok(o) ==> o.spec_counter() == cursor.ctr && o.spec_actor() < self.ops.actors.len() && self.ops.actors[o.spec_actor() as int] == cursor.actor,
            (forall|i: int| 0 <= i < self.ops.actors.len() ==> self.ops.actors[i] != cursor.actor) ==> r is Err,
            // C19: a cursor of a known actor with an in-range counter DOES resolve when no clock restricts the view
            ((exists|i: int| 0 <= i < self.ops.actors.len() && self.ops.actors[i] == cursor.actor) && cursor.ctr <= u32::MAX && clock is None) ==> r is Ok,
//@ end
}

} // verus!
fn main() {}
