// U04 ids -- id resolution: types.rs (OpId), automerge.rs (exid_to_opid, op_cursor_to_opid),
// op_set2/op_set.rs (get_actor_safe)   (engine V)
use vstd::prelude::*;
use std::cmp::Ordering;
verus! {

// ---------------------------------------------------------------- assumed environment (trusted)
/// ActorId is opaque here: only equality and clone are used by the functions under contract
#[verifier::external_body]
pub struct ActorId { _p: () }
impl vstd::std_specs::cmp::PartialEqSpecImpl for ActorId {
    open spec fn obeys_eq_spec() -> bool { true }
    open spec fn eq_spec(&self, o: &Self) -> bool { *self == *o }
}
impl PartialEq for ActorId { #[verifier::external_body] fn eq(&self, o: &Self) -> (r: bool) ensures r == (*self == *o) { unimplemented!() } }
impl Clone for ActorId { #[verifier::external_body] fn clone(&self) -> (r: Self) ensures r == *self { unimplemented!() } }

//@ item rust/automerge/src/exid.rs | enum ExId
impl ExId { #[verifier::external_body] pub fn to_string(&self) -> String { unimplemented!() } }
//@ item rust/automerge/src/cursor.rs | enum MoveCursor
//@ item rust/automerge/src/cursor.rs | struct OpCursor
//@ item rust/automerge/src/cursor.rs | enum Cursor
/// only the variants the functions under contract construct
pub enum AutomergeError { InvalidObjId(String), InvalidCursor(Cursor), Other }
//@ item rust/automerge/src/types.rs | struct OpId

pub struct Clock(pub Vec<u32>);
impl Clock {
    /// assumed total; its result only selects between Ok and Err
    #[verifier::external_body]
    pub fn covers(&self, id: &OpId) -> bool { unimplemented!() }
}
/// the part of OpSet / Automerge the functions under contract touch
pub struct OpSet { pub actors: Vec<ActorId> }
pub struct Automerge { pub ops: OpSet }

impl OpSet {
    /// ASSUMED contract of `lookup_actor` (a `binary_search` over the actor table, which rests on
    /// the document invariant "actors sorted and duplicate-free" -- not under contract)
    #[verifier::external_body]
    pub fn lookup_actor(&self, actor: &ActorId) -> (r: Option<usize>)
        ensures r matches Some(i) ==> i < self.actors.len() && self.actors[i as int] == *actor,
                r is None ==> forall|i: int| 0 <= i < self.actors.len() ==> self.actors[i] != *actor,
    { unimplemented!() }

//@ fn rust/automerge/src/op_set2/op_set.rs | impl OpSet | get_actor_safe
//@   ret r
//@   spec
        ensures idx < self.actors.len() ==> r == Some(&self.actors[idx as int]), idx >= self.actors.len() ==> r is None
//@ end
}

impl OpId {
    pub open spec fn spec_counter(&self) -> u64 { self.0 as u64 }
    pub open spec fn spec_actor(&self) -> usize { self.1 as usize }

//@ fn rust/automerge/src/types.rs | impl OpId | new
//@   ret r
//@   spec
        // the two `unwrap()`s of the real body: this precondition is what C37 asks every caller
        // reachable from a user-supplied id or cursor to establish
        requires counter <= u32::MAX, actor <= u32::MAX,
        ensures r.0 == counter, r.1 == actor,
//@ end
}

// ---- the document's own cached actor index follows actor-table shifts (automerge.rs, enum Actor)
//@ item rust/automerge/src/automerge.rs | enum Actor
impl Actor {
//@ fn rust/automerge/src/automerge.rs | impl Actor | remove_actor
//@   spec
        requires index < actors.len(),
        ensures
            // C30: removing table entry `index` keeps a cached index pointing at the SAME actor,
            // or (if it was that entry) falls back to carrying the actor id itself
            *old(self) matches Actor::Cached(i) ==> (
                (i == index ==> *final(self) == Actor::Unused(actors[index as int]))
                && (i > index ==> *final(self) == Actor::Cached((i - 1) as usize))
                && (i < index ==> *final(self) == Actor::Cached(i))),
            *old(self) is Unused ==> *final(self) == *old(self),
//@ end

//@ fn rust/automerge/src/automerge.rs | impl Actor | rewrite_with_new_actor
//@   spec
        requires *old(self) matches Actor::Cached(i) ==> i < usize::MAX,
        ensures
            *old(self) matches Actor::Cached(i) ==> *final(self) == Actor::Cached(if i >= index { (i + 1) as usize } else { i }),
            *old(self) is Unused ==> *final(self) == *old(self),
//@ end
}

/// assumption (reported): a document has at most u32::MAX actors
pub open spec fn table_fits(a: &Automerge) -> bool { a.ops.actors.len() <= u32::MAX }

impl Automerge {
//@ fn rust/automerge/src/automerge.rs | impl Automerge | exid_to_opid
//@   ret r
//@   spec
        requires table_fits(self),
        ensures
            id is Root ==> (r matches Ok(o) && o.0 == 0 && o.1 == 0),
            // C30/C19: an id resolves to ITS OWN actor whatever the hint index says ...
            id matches ExId::Id(ctr, actor, idx) ==> (r matches Ok(o) ==> o.spec_counter() == ctr && o.spec_actor() < self.ops.actors.len() && self.ops.actors[o.spec_actor() as int] == actor),
            // ... and an actor this replica does not know gives an error, never another actor's object
            id matches ExId::Id(ctr, actor, idx) ==> ((forall|i: int| 0 <= i < self.ops.actors.len() ==> self.ops.actors[i] != actor) ==> r is Err),
            // C19: a known actor with an in-range counter does resolve (ids decode to usable ids)
            id matches ExId::Id(ctr, actor, idx) ==> ((exists|i: int| 0 <= i < self.ops.actors.len() && self.ops.actors[i] == actor) && ctr <= u32::MAX ==> r is Ok),
//@ end

//@ fn rust/automerge/src/automerge.rs | impl Automerge | op_cursor_to_opid
//@   ret r
//@   spec
        requires table_fits(self),
        ensures r matches Ok(o) ==> o.spec_counter() == cursor.ctr && o.spec_actor() < self.ops.actors.len() && self.ops.actors[o.spec_actor() as int] == cursor.actor,
            (forall|i: int| 0 <= i < self.ops.actors.len() ==> self.ops.actors[i] != cursor.actor) ==> r is Err,
//@ end
}

} // verus!
fn main() {}
