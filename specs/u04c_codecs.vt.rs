// U04c id codecs -- exid.rs (ExId::to_bytes / TryFrom<&[u8]>), cursor.rs (Cursor::to_bytes / TryFrom<&[u8]> / parse_0)
// (engine V, modular over the verified parser layer of u02)
#![feature(allocator_api)]
use vstd::prelude::*;
use core::num::NonZeroUsize;
use std::num::NonZeroU64;
use std::convert::TryInto;
verus! {

//@ include u02_parse.vt.rs

pub mod parse {
    pub use super::{Input, ParseResult, ParseError, leb128_u64, leb128_i64, leb128_u32, nonzero_leb128_u64, take_n, take1, take4, take_rest, length_prefixed_bytes};
    pub use super::leb128;
}
impl<E> ParseError<E> { #[verifier::external_body] pub fn to_string(&self) -> String { unimplemented!() } }

/// ActorId: an opaque byte string (TinyVec inside; only to_bytes / From<&[u8]> are used here)
#[verifier::external_body]
pub struct ActorId { _p: () }
impl ActorId {
    pub uninterp spec fn spec_bytes(&self) -> Seq<u8>;
    #[verifier::external_body]
    pub fn to_bytes(&self) -> (r: &[u8]) ensures r@ == self.spec_bytes() { unimplemented!() }
}
pub uninterp spec fn actor_of(b: Seq<u8>) -> ActorId;
pub broadcast proof fn axiom_actor_of(b: Seq<u8>) ensures #[trigger] actor_of(b).spec_bytes() == b { admit(); }
impl<'a> vstd::std_specs::convert::FromSpecImpl<&'a [u8]> for ActorId {
    open spec fn obeys_from_spec() -> bool { true }
    open spec fn from_spec(b: &'a [u8]) -> ActorId { actor_of(b@) }
}
impl<'a> From<&'a [u8]> for ActorId { #[verifier::external_body] fn from(b: &'a [u8]) -> (r: Self) ensures r == actor_of(b@) { unimplemented!() } }
impl Clone for ActorId { #[verifier::external_body] fn clone(&self) -> (r: Self) ensures r == *self { unimplemented!() } }
impl vstd::std_specs::cmp::PartialEqSpecImpl for ActorId {
    open spec fn obeys_eq_spec() -> bool { true }
    open spec fn eq_spec(&self, o: &Self) -> bool { *self == *o }
}
impl PartialEq for ActorId { #[verifier::external_body] fn eq(&self, o: &Self) -> (r: bool) ensures r == (*self == *o) { unimplemented!() } }

// ================================================================ exid.rs
pub mod exid {
use super::*;
use vstd::prelude::*;

//@ item rust/automerge/src/exid.rs | enum ExId
//@ item rust/automerge/src/exid.rs | enum ObjIdFromBytesError
//@ item rust/automerge/src/exid.rs | const SERIALIZATION_VERSION_TAG
//@ item rust/automerge/src/exid.rs | const TYPE_ROOT
//@ item rust/automerge/src/exid.rs | const TYPE_ID

/// wire form of an object id (field order as written by to_bytes: actor, index hint, counter)
pub open spec fn exid_enc(ctr: u64, actor: Seq<u8>, idx: usize) -> Seq<u8> {
    seq![0x10u8] + leb(actor.len() as nat) + actor + leb(idx as nat) + leb(ctr as nat)
}
/// FUNCTIONAL SPEC of the decoder: None = rejected, Some(None) = root, Some(Some((ctr, actor, idx)))
pub open spec fn exid_dec(s: Seq<u8>) -> Option<Option<(u64, Seq<u8>, usize)>> {
    if s.len() == 0 { None }
    else if s[0] & 0b1111 != 0 { None }
    else if s[0] >> 4 == 0 { Some(None) }
    else if s[0] >> 4 == 1 {
        let t1 = s.subrange(1, s.len() as int);
        if !dec_ok(t1) { None } else {
            let len = dec_val(t1);
            let t2 = t1.subrange(lebk(t1), t1.len() as int);
            if len > t2.len() { None } else {
                let actor = t2.subrange(0, len as int);
                let t3 = t2.subrange(len as int, t2.len() as int);
                if !dec_ok(t3) { None } else {
                    let idx = dec_val(t3);
                    let t4 = t3.subrange(lebk(t3), t3.len() as int);
                    if !dec_ok(t4) { None } else { Some(Some((dec_val(t4) as u64, actor, idx as usize))) }
                }
            }
        }
    } else { None }
}
/// C19: decode(encode(id)) == id for every counter, every index hint and actor ids of ANY length
pub proof fn lemma_exid_roundtrip(ctr: u64, actor: Seq<u8>, idx: usize)
    requires actor.len() <= u64::MAX,
    ensures exid_dec(exid_enc(ctr, actor, idx)) == Some(Some((ctr, actor, idx))),
{
    let s = exid_enc(ctr, actor, idx);
    let e1 = leb(actor.len() as nat);
    let e2 = leb(idx as nat);
    let e3 = leb(ctr as nat);
    assert(s[0] == 0x10u8);
    assert(0x10u8 & 0b1111 == 0 && 0x10u8 >> 4 == 1) by (bit_vector);
    let t1 = s.subrange(1, s.len() as int);
    assert(t1 =~= e1 + (actor + e2 + e3));
    lemma_dec_enc(actor.len() as nat, actor + e2 + e3);
    let t2 = t1.subrange(lebk(t1), t1.len() as int);
    assert(t2 =~= actor + e2 + e3);
    assert(t2.subrange(0, actor.len() as int) =~= actor);
    let t3 = t2.subrange(actor.len() as int, t2.len() as int);
    assert(t3 =~= e2 + e3);
    lemma_dec_enc(idx as nat, e3);
    let t4 = t3.subrange(lebk(t3), t3.len() as int);
    assert(t4 =~= e3 + Seq::<u8>::empty());
    lemma_dec_enc(ctr as nat, Seq::<u8>::empty());
}

impl ExId {
//@ fn rust/automerge/src/exid.rs | impl ExId | to_bytes
//@   ret r
//@   spec
        requires *self matches ExId::Id(_, a, _) ==> a.spec_bytes().len() < 0x7fff_ffff_ffff_fff0,
        ensures
            self is Root ==> r@ =~= seq![0u8],
            *self matches ExId::Id(ctr, a, idx) ==> r@ =~= exid_enc(ctr, a.spec_bytes(), idx),
//@   before /let val: u8 = SERIALIZATION_VERSION_TAG \| \(TYPE_ROOT << 4\);/
                proof { assert(0u8 | (0u8 << 4u8) == 0u8) by (bit_vector); }
//@   before /let tag = SERIALIZATION_VERSION_TAG \| \(TYPE_ID << 4\);/
                proof { assert(0u8 | (1u8 << 4u8) == 0x10u8) by (bit_vector); }
//@ end
}

impl<'a> vstd::std_specs::convert::TryFromSpecImpl<&'a [u8]> for ExId {
    open spec fn obeys_try_from_spec() -> bool { false }
    open spec fn try_from_spec(v: &'a [u8]) -> Result<Self, Self::Error> { arbitrary() }
}
impl<'a> TryFrom<&'a [u8]> for ExId {
    type Error = ObjIdFromBytesError;
//@ fn rust/automerge/src/exid.rs | impl<'a> TryFrom<&'a [u8]> for ExId | try_from
//@   ret r
//@   spec
        ensures
            // total (C15) and exactly the functional spec (C19)
            exid_dec(value@) is None <==> r is Err,
            exid_dec(value@) == Some(None::<(u64, Seq<u8>, usize)>) <==> r matches Ok(ExId::Root),
            r matches Ok(ExId::Id(c, a, i)) ==> exid_dec(value@) == Some(Some((c, a.spec_bytes(), i))),
//@   before /Ok\(Self::Id\(actor_idx_hint, actor\.into\(\), counter as usize\)\)/
                proof {
                    axiom_actor_of(actor@);
                    let s = value@;
                    let t1 = s.subrange(1, s.len() as int);
                    let t2 = t1.subrange(lebk(t1), t1.len() as int);
                    let t3 = t2.subrange(len as int, t2.len() as int);
                    let t4 = t3.subrange(lebk(t3), t3.len() as int);
                    assert(actor@ =~= t2.subrange(0, len as int));
                }
//@ end
}
} // mod exid

// ================================================================ cursor.rs
pub mod cursor {
use super::*;
use vstd::prelude::*;

/// only the variant the codec constructs
pub enum AutomergeError { InvalidCursorFormat, Other }
//@ item rust/automerge/src/cursor.rs | enum Cursor
//@ item rust/automerge/src/cursor.rs | struct OpCursor
//@ item rust/automerge/src/cursor.rs | enum MoveCursor
//@ item rust/automerge/src/cursor.rs | const VERSION_TAG
//@ item rust/automerge/src/cursor.rs | const START_TAG
//@ item rust/automerge/src/cursor.rs | const END_TAG
//@ item rust/automerge/src/cursor.rs | const OP_TAG
//@ item rust/automerge/src/cursor.rs | const MOVE_BEFORE_TAG
//@ item rust/automerge/src/cursor.rs | const MOVE_AFTER_TAG

pub enum CSpec { Start, End, Op { ctr: u64, actor: Seq<u8>, before: bool } }
pub open spec fn cursor_view(c: Cursor) -> CSpec {
    match c {
        Cursor::Start => CSpec::Start,
        Cursor::End => CSpec::End,
        Cursor::Op(o) => CSpec::Op { ctr: o.ctr, actor: o.actor.spec_bytes(), before: o.move_cursor is Before },
    }
}
/// version-1 wire form
pub open spec fn cursor_enc(c: CSpec) -> Seq<u8> {
    match c {
        CSpec::Start => seq![1u8, 1u8],
        CSpec::End => seq![1u8, 2u8],
        CSpec::Op { ctr, actor, before } => seq![1u8, 3u8] + leb(actor.len() as nat) + actor + leb(ctr as nat) + seq![if before { 1u8 } else { 2u8 }],
    }
}
/// actor-length / actor / counter triple shared by both versions: (ctr, actor, rest) or None
pub open spec fn opid_dec(t1: Seq<u8>) -> Option<(u64, Seq<u8>, Seq<u8>)> {
    if !dec_ok(t1) { None } else {
        let len = dec_val(t1);
        let t2 = t1.subrange(lebk(t1), t1.len() as int);
        if len > t2.len() { None } else {
            let actor = t2.subrange(0, len as int);
            let t3 = t2.subrange(len as int, t2.len() as int);
            if !dec_ok(t3) { None } else { Some((dec_val(t3) as u64, actor, t3.subrange(lebk(t3), t3.len() as int))) }
        }
    }
}
/// FUNCTIONAL SPEC of the decoder (both versions)
pub open spec fn cursor_dec(s: Seq<u8>) -> Option<CSpec> {
    if s.len() == 0 { None }
    else if s[0] == 0 {
        match opid_dec(s.subrange(1, s.len() as int)) { Some((ctr, actor, _)) => Some(CSpec::Op { ctr, actor, before: false }), None => None }
    } else if s[0] != 1 { None }
    else if s.len() < 2 { None }
    else if s[1] == 1 { Some(CSpec::Start) }
    else if s[1] == 2 { Some(CSpec::End) }
    else if s[1] == 3 {
        match opid_dec(s.subrange(2, s.len() as int)) {
            Some((ctr, actor, rest)) => if rest.len() == 0 { None } else if rest[0] == 2 { Some(CSpec::Op { ctr, actor, before: false }) }
                else if rest[0] == 1 { Some(CSpec::Op { ctr, actor, before: true }) } else { None },
            None => None,
        }
    } else { None }
}
/// C19: decode(encode(c)) == c for every cursor, actor ids of ANY length, all 64-bit counters
pub proof fn lemma_cursor_roundtrip(c: CSpec)
    requires c matches CSpec::Op { actor, .. } ==> actor.len() <= u64::MAX,
    ensures cursor_dec(cursor_enc(c)) == Some(c),
{
    match c {
        CSpec::Start => {}
        CSpec::End => {}
        CSpec::Op { ctr, actor, before } => {
            let s = cursor_enc(c);
            let e1 = leb(actor.len() as nat);
            let e3 = leb(ctr as nat);
            let m = seq![if before { 1u8 } else { 2u8 }];
            let t1 = s.subrange(2, s.len() as int);
            assert(s[0] == 1u8 && s[1] == 3u8);
            assert(t1 =~= e1 + (actor + e3 + m));
            lemma_dec_enc(actor.len() as nat, actor + e3 + m);
            let t2 = t1.subrange(lebk(t1), t1.len() as int);
            assert(t2 =~= actor + e3 + m);
            assert(t2.subrange(0, actor.len() as int) =~= actor);
            let t3 = t2.subrange(actor.len() as int, t2.len() as int);
            assert(t3 =~= e3 + m);
            lemma_dec_enc(ctr as nat, m);
            let t4 = t3.subrange(lebk(t3), t3.len() as int);
            assert(t4 =~= m);
        }
    }
}

impl Cursor {
//@ fn rust/automerge/src/cursor.rs | impl Cursor | to_bytes
//@   ret r
//@   spec
        requires *self matches Cursor::Op(o) ==> o.actor.spec_bytes().len() < 0x7fff_ffff_ffff_fff0,
        ensures r@ =~= cursor_enc(cursor_view(*self)),
//@ end
}

//@ fn rust/automerge/src/cursor.rs | parse_0
//@   ret r
//@   spec
    requires i.wf(),
    ensures
        opid_dec(i.bytes@) is None <==> r is Err,
        r matches Ok(c) ==> (opid_dec(i.bytes@) matches Some((ctr, actor, _)) && cursor_view(c) == CSpec::Op { ctr, actor, before: false }),
//@   before /^    let \(i, len\) = parse::leb128_u64::<parse::leb128::Error>\(i\)$/
    let ghost i0 = i;
//@   before /Ok\(Cursor::Op\(OpCursor \{/
    proof {
        axiom_actor_of(actor@);
        let t1 = i0.bytes@;
        let t2 = t1.subrange(lebk(t1), t1.len() as int);
        assert(actor@ =~= t2.subrange(0, len as int));
    }
//@ end

impl<'a> vstd::std_specs::convert::TryFromSpecImpl<&'a [u8]> for Cursor {
    open spec fn obeys_try_from_spec() -> bool { false }
    open spec fn try_from_spec(v: &'a [u8]) -> Result<Self, Self::Error> { arbitrary() }
}
impl<'a> TryFrom<&'a [u8]> for Cursor {
    type Error = AutomergeError;
//@ fn rust/automerge/src/cursor.rs | impl<'a> TryFrom<&'a [u8]> for Cursor | try_from
//@   ret r
//@   spec
        ensures
            // total (C15) and exactly the functional spec (C19)
            cursor_dec(value@) is None <==> r is Err,
            r matches Ok(c) ==> cursor_dec(value@) == Some(cursor_view(c)),
//@   before /Ok\(Self::Op\(OpCursor \{/
                proof {
                    axiom_actor_of(actor@);
                    let s = value@;
                    let t1 = s.subrange(2, s.len() as int);
                    let t2 = t1.subrange(lebk(t1), t1.len() as int);
                    assert(actor@ =~= t2.subrange(0, len as int));
                }
//@ end
}
} // mod cursor

} // verus!
fn main() {}
