// U05v sync message version / flags -- rust/automerge/src/sync.rs  (engine V, includes the parser layer of u02)
#![feature(allocator_api)]
use vstd::prelude::*;
use core::num::NonZeroUsize;
use std::num::NonZeroU64;
use std::convert::TryInto;
verus! {

//@ include u02_parse.vt.rs

pub mod parse { pub use super::{Input, ParseResult, ParseError, take1}; }

pub mod sync {
use super::*;
use vstd::prelude::*;

//@ item rust/automerge/src/sync.rs | const MESSAGE_TYPE_SYNC
//@ item rust/automerge/src/sync.rs | const MESSAGE_TYPE_SYNC_V2
//@ item rust/automerge/src/sync.rs | enum MessageVersion
//@ item rust/automerge/src/sync.rs | struct MessageFlags
/// only the variant MessageVersion::parse constructs
pub enum ReadMessageError { WrongType { expected_one_of: Vec<u8>, found: u8 }, Other }

impl MessageVersion {
    pub open spec fn code(&self) -> u8 { match self { MessageVersion::V1 => 0x42u8, MessageVersion::V2 => 0x43u8 } }

//@ fn rust/automerge/src/sync.rs | impl MessageVersion | parse
//@   ret r
//@   spec
        requires input.wf(),
        ensures
            // C19: inverse of encode; C15: total, Incomplete exactly on empty input
            r matches Ok((i, v)) ==> input.bytes.len() > 0 && v.code() == input.bytes[0] && input.advanced(i, 1),
            (r matches Err(ParseError::Incomplete(_))) <==> input.bytes.len() == 0,
            (input.bytes.len() > 0 && (input.bytes[0] == 0x42 || input.bytes[0] == 0x43)) ==> r is Ok,
//@ end

//@ fn rust/automerge/src/sync.rs | impl MessageVersion | encode
//@   ret r
//@   spec
        ensures r == self.code(),
//@ end
}

impl MessageFlags {
//@ item rust/automerge/src/sync.rs | impl MessageFlags | const SYNC_RESET
//@ item rust/automerge/src/sync.rs | impl MessageFlags | const READ_ONLY
//@ item rust/automerge/src/sync.rs | impl MessageFlags | const SUPPORTS_SYNC_RESET
//@ item rust/automerge/src/sync.rs | impl MessageFlags | const BITFIELD_MARKER
//@ item rust/automerge/src/sync.rs | impl MessageFlags | const LEGACY_V2_BYTE

//@ fn rust/automerge/src/sync.rs | impl MessageFlags | new
//@   ret r
//@   spec
        ensures r.0 == 0,
//@ end

//@ fn rust/automerge/src/sync.rs | impl MessageFlags | contains
//@   ret r
//@   spec
        ensures r == (self.0 & flag != 0),
//@ end

//@ fn rust/automerge/src/sync.rs | impl MessageFlags | set
//@   spec
        ensures final(self).0 == old(self).0 | flag,
//@ end

//@ fn rust/automerge/src/sync.rs | impl MessageFlags | encode
//@   spec
        requires self.0 < 0x80,
        ensures
            // wire form: count 2, legacy V2 byte, bitfield byte
            final(out)@ == old(out)@ + seq![2u8, 0x02u8, (0x80u8 | self.0)],
//@   before /leb128::write::unsigned\(out, 2u64\)\.unwrap\(\);/
        proof { reveal_with_fuel(leb, 2); assert(leb(2) =~= seq![2u8]); }
//@ end

    // parse_bytes iterates with `for &byte in bytes` (a reference pattern this Verus rejects): it stays with Kani
    // (u05_flags_roundtrip complete over all flag values, u05_flags_parse_bytes bounded).
}
} // mod sync

} // verus!
fn main() {}
