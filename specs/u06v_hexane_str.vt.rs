// U06v hexane string/bytes value codecs -- rust/hexane/src/lib.rs  (engine V, unbounded in buffer length)
#![feature(allocator_api)]
use vstd::prelude::*;
use vstd::string::StringSliceAdditionalSpecFns;
verus! {
global layout usize is size == 8;

// ---------------------------------------------------------------- assumed environment (trusted)
pub mod leb128 { pub mod read { #[verifier::external_body] pub struct Error { _p: () } } }
//@ item rust/hexane/src/error.rs | enum PackError
/// hexane's stack buffer for one encoded integer: here just its bytes
#[verifier::external_body] pub struct VarBuf { _p: () }
impl VarBuf { pub uninterp spec fn view(&self) -> Seq<u8>; }

/// ASSUMED contract of the codec trait (what every `Codec` impl must satisfy; for `Leb128` it is backed by
/// the Kani harnesses u06_leb_unsigned_roundtrip / u06_int_unpack_total / u06_codec_reads_agree):
/// the checked and the unchecked reader compute the SAME partial function `dec`, and a successful read
/// consumes between 1 and `data.len()` bytes.
pub trait Codec {
    spec fn dec(data: Seq<u8>) -> Option<(usize, u64)>;
    spec fn enc(n: u64) -> Seq<u8>;
    proof fn dec_bounds(data: Seq<u8>)
        ensures Self::dec(data) matches Some((n, _)) ==> 0 < n <= data.len();
    fn read_unsigned(data: &[u8]) -> (r: Option<(usize, u64)>)
        ensures r == Self::dec(data@);
    fn try_read_unsigned(data: &[u8]) -> (r: Result<(usize, u64), PackError>)
        ensures r is Ok <==> Self::dec(data@) is Some, r matches Ok(p) ==> Self::dec(data@) == Some(p);
    fn encode_unsigned(n: u64) -> (r: VarBuf)
        ensures r@ == Self::enc(n);
    /// size of the CANONICAL encoding of n (what the encoder writes) -- not necessarily the width of an
    /// encoding found in untrusted data
    fn unsigned_size(n: u64) -> (r: u64)
        ensures r == Self::enc(n).len();
    fn unsigned_len(data: &[u8]) -> (r: Option<usize>)
        ensures r == (match Self::dec(data@) { Some((n, _)) => Some(n), None => None::<usize> });
}
/// std: str::from_utf8 is the validator `valid_utf8` of vstd; its result borrows exactly the input bytes
pub assume_specification<'a>[ core::str::from_utf8 ](v: &'a [u8]) -> (r: Result<&'a str, core::str::Utf8Error>)
    ensures r is Ok <==> vstd::utf8::valid_utf8(v@), r matches Ok(s) ==> s.spec_bytes() == v@;
/// std: the unchecked conversion is only defined on valid UTF-8 -- this `requires` is the proof obligation
/// that C39 puts on every call site of the unsafe fast path
pub assume_specification<'a>[ core::str::from_utf8_unchecked ](v: &'a [u8]) -> (r: &'a str)
    requires vstd::utf8::valid_utf8(v@),
    ensures r.spec_bytes() == v@;
#[verifier::external_type_specification]
#[verifier::external_body]
pub struct ExUtf8Error(core::str::Utf8Error);

// ---------------------------------------------------------------- functional spec of the value decoders
/// bytes value: (total length, payload) if the length prefix decodes and the payload is inside the buffer
pub open spec fn bytes_dec<C: Codec>(data: Seq<u8>) -> Option<(usize, Seq<u8>)> {
    match C::dec(data) {
        Some((hdr, len)) => if data.len() - hdr < len as usize { None } else { Some(((hdr + len as usize) as usize, data.subrange(hdr as int, hdr + len as usize))) },
        None => None,
    }
}
/// string value: additionally the payload must be valid UTF-8
pub open spec fn str_dec<C: Codec>(data: Seq<u8>) -> Option<(usize, Seq<u8>)> {
    match bytes_dec::<C>(data) {
        Some((n, b)) => if vstd::utf8::valid_utf8(b) { Some((n, b)) } else { None },
        None => None,
    }
}

pub trait RleBytes {
    fn value_len<C: Codec>(data: &[u8]) -> (r: Option<usize>)
        ensures r == (match bytes_dec::<C>(data@) { Some((n, _)) => Some(n), None => None::<usize> });
    fn try_unpack<C: Codec>(data: &[u8]) -> (r: Result<(usize, &[u8]), PackError>)
        ensures
            // C35/C15: total, never reads outside the buffer; exactly the functional spec
            r is Ok <==> bytes_dec::<C>(data@) is Some,
            r matches Ok((n, b)) ==> bytes_dec::<C>(data@) == Some((n, b@)) && n <= data.len();
}
pub trait RleStr {
    /// the skip path need not validate UTF-8; all C35/C39 ask of it: it stays inside the buffer and agrees with
    /// the checked decoder wherever that one accepts
    fn value_len<C: Codec>(data: &[u8]) -> (r: Option<usize>)
        ensures r matches Some(n) ==> n <= data.len(),
            str_dec::<C>(data@) matches Some((n, _)) ==> r == Some(n);
    fn try_unpack<C: Codec>(data: &[u8]) -> (r: Result<(usize, &str), PackError>)
        ensures
            // C39: the checked decoder only yields valid UTF-8 taken from inside the buffer
            r is Ok <==> str_dec::<C>(data@) is Some,
            r matches Ok((n, s)) ==> str_dec::<C>(data@) == Some((n, s.spec_bytes())) && n <= data.len() && vstd::utf8::valid_utf8(s.spec_bytes());
    /// C39: the UNCHECKED decoder (from_utf8_unchecked) is sound on every buffer the checked one accepts,
    /// and returns the same (length, string)
    fn unpack<C: Codec>(data: &[u8]) -> (r: (usize, &str))
        requires str_dec::<C>(data@) is Some,
        ensures str_dec::<C>(data@) == Some((r.0, r.1.spec_bytes()));
}

impl RleBytes for Vec<u8> {
//@ fn rust/hexane/src/lib.rs | impl RleValue for Vec<u8> | value_len
//@   before /if data\.len\(\) - hdr < len \{/
        proof { C::dec_bounds(data@); }
//@ end
//@ fn rust/hexane/src/lib.rs | impl RleValue for Vec<u8> | try_unpack
//@   before /let rest = &data\[hdr\.\.\];/
        proof { C::dec_bounds(data@); }
//@   after /let rest = &data\[hdr\.\.\];/
        proof { assert(rest@ =~= data@.subrange(hdr as int, data.len() as int)); assert(rest.len() == data.len() - hdr); }
//@   before /Ok\(\(hdr \+ len, &rest\[\.\.len\]\)\)/
        proof { assert(rest@.subrange(0, len as int) =~= data@.subrange(hdr as int, hdr + len)); }
//@ end
}

impl RleStr for String {
//@ fn rust/hexane/src/lib.rs | impl RleValue for String | value_len
//@ end
//@ fn rust/hexane/src/lib.rs | impl RleValue for String | try_unpack
//@   before /let rest = &data\[hdr\.\.\];/
        proof { C::dec_bounds(data@); }
//@   after /let rest = &data\[hdr\.\.\];/
        proof {
            assert(rest@ =~= data@.subrange(hdr as int, data.len() as int)); assert(rest.len() == data.len() - hdr);
            if len <= rest.len() { assert(rest@.subrange(0, len as int) =~= data@.subrange(hdr as int, hdr + len)); }
        }
//@ end
//@ fn rust/hexane/src/lib.rs | impl RleValue for String | unpack
//@   after /let len = len as usize;/
        proof { C::dec_bounds(data@); assert(data.len() - hdr >= len); }
//@ end
}

} // verus!
fn main() {}
