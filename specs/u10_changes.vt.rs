// U10 change bookkeeping -- change_queue.rs (ChangeBatch::push, ChangeQueue::{has_hash,has_actor_seq,extend}),
// change_graph.rs (update_heads), automerge.rs (update_deps, transaction_args)    (engine V)
use vstd::prelude::*;
use core::num::NonZeroU64;
verus! {

// ---------------------------------------------------------------- assumed environment (trusted)
pub assume_specification<T: Clone>[ <[T]>::to_vec ](s: &[T]) -> (r: Vec<T>) ensures r@ == s@;
pub assume_specification<T: PartialEq>[ <[T]>::contains ](s: &[T], x: &T) -> (r: bool) ensures r == s@.contains(*x);

//@ item rust/automerge/src/types.rs | const HASH_SIZE
//@ item rust/automerge/src/types.rs | struct ChangeHash

/// std::collections::{HashSet, BTreeSet} as mathematical sets (assumed contracts; no vstd specs here)
#[verifier::external_body]
#[verifier::reject_recursive_types(T)]
pub struct HashSet<T> { _p: core::marker::PhantomData<T> }
impl<T> HashSet<T> {
    pub uninterp spec fn view(&self) -> Set<T>;
    #[verifier::external_body]
    pub fn new() -> (r: Self) ensures r.view() == Set::<T>::empty() { unimplemented!() }
    #[verifier::external_body]
    pub fn contains(&self, k: &T) -> (r: bool) ensures r == self.view().contains(*k) { unimplemented!() }
    #[verifier::external_body]
    pub fn insert(&mut self, k: T) -> (r: bool) ensures final(self).view() == old(self).view().insert(k), r == !old(self).view().contains(k) { unimplemented!() }
    #[verifier::external_body]
    pub fn remove(&mut self, k: &T) -> (r: bool) ensures final(self).view() == old(self).view().remove(*k), r == old(self).view().contains(*k) { unimplemented!() }
    #[verifier::external_body]
    pub fn clear(&mut self) ensures final(self).view() == Set::<T>::empty() { unimplemented!() }
    #[verifier::external_body]
    pub fn is_empty(&self) -> (r: bool) ensures r == (self.view() == Set::<T>::empty()) { unimplemented!() }
}
impl<T> Clone for HashSet<T> { #[verifier::external_body] fn clone(&self) -> (r: Self) ensures r.view() == self.view() { unimplemented!() } }
#[verifier::external_body]
#[verifier::reject_recursive_types(T)]
pub struct BTreeSet<T> { _p: core::marker::PhantomData<T> }
impl<T> BTreeSet<T> {
    pub uninterp spec fn view(&self) -> Set<T>;
    #[verifier::external_body]
    pub fn remove(&mut self, k: &T) -> (r: bool) ensures final(self).view() == old(self).view().remove(*k) { unimplemented!() }
    #[verifier::external_body]
    pub fn insert(&mut self, k: T) -> (r: bool) ensures final(self).view() == old(self).view().insert(k) { unimplemented!() }
    #[verifier::external_body]
    pub fn contains(&self, k: &T) -> (r: bool) ensures r == self.view().contains(*k) { unimplemented!() }
    #[verifier::external_body]
    pub fn clear(&mut self) ensures final(self).view() == Set::<T>::empty() { unimplemented!() }
    #[verifier::external_body]
    pub fn is_empty(&self) -> (r: bool) ensures r == (self.view() == Set::<T>::empty()) { unimplemented!() }
}
#[verifier::external_body]
pub struct ActorId { _p: () }
impl Clone for ActorId { #[verifier::external_body] fn clone(&self) -> (r: ActorId) ensures r == *self { unimplemented!() } }
impl vstd::std_specs::cmp::PartialEqSpecImpl for ActorId {
    open spec fn obeys_eq_spec() -> bool { true }
    open spec fn eq_spec(&self, o: &Self) -> bool { *self == *o }
}
impl PartialEq for ActorId { #[verifier::external_body] fn eq(&self, o: &Self) -> (r: bool) ensures r == (*self == *o) { unimplemented!() } }
/// a Change is abstract: (hash, actor, seq, deps)
#[verifier::external_body]
pub struct Change { _p: () }
impl Change {
    pub uninterp spec fn spec_hash(&self) -> ChangeHash;
    pub uninterp spec fn spec_actor(&self) -> ActorId;
    pub uninterp spec fn spec_seq(&self) -> u64;
    pub uninterp spec fn spec_deps(&self) -> Seq<ChangeHash>;
    #[verifier::external_body]
    pub fn hash(&self) -> (r: ChangeHash) ensures r == self.spec_hash() { unimplemented!() }
    #[verifier::external_body]
    pub fn actor_id(&self) -> (r: &ActorId) ensures *r == self.spec_actor() { unimplemented!() }
    #[verifier::external_body]
    pub fn seq(&self) -> (r: u64) ensures r == self.spec_seq() { unimplemented!() }
    #[verifier::external_body]
    pub fn deps(&self) -> (r: &[ChangeHash]) ensures r@ == self.spec_deps() { unimplemented!() }
    // other read-only accessors of the real Change a variant of these functions might consult (no contract beyond totality)
    #[verifier::external_body] pub fn start_op(&self) -> NonZeroU64 { unimplemented!() }
    #[verifier::external_body] pub fn max_op(&self) -> u64 { unimplemented!() }
    #[verifier::external_body] pub fn len(&self) -> usize { unimplemented!() }
    #[verifier::external_body] pub fn is_empty(&self) -> bool { unimplemented!() }
    #[verifier::external_body] pub fn timestamp(&self) -> i64 { unimplemented!() }
}
impl Clone for Change { #[verifier::external_body] fn clone(&self) -> (r: Self) ensures r == *self { unimplemented!() } }
#[derive(Debug)]
pub enum AutomergeError { DuplicateSeqNumber(u64, ActorId), InvalidSeq(u64), Other }
impl core::fmt::Debug for ActorId { #[verifier::external_body] fn fmt(&self, f: &mut core::fmt::Formatter<'_>) -> core::fmt::Result { unimplemented!() } }

// ================================================================ change_queue.rs
//@ item rust/automerge/src/change_queue.rs | struct ChangeBatch
//@ item rust/automerge/src/change_queue.rs | struct ChangeQueue

/// the (actor, seq) pairs of `changes` are pairwise distinct and mirrored by the two index sets
pub open spec fn idx_wf(changes: Seq<Change>, hashes: Set<ChangeHash>, pairs: Set<(ActorId, u64)>) -> bool {
    &&& forall|i: int| 0 <= i < changes.len() ==> hashes.contains((#[trigger] changes[i]).spec_hash()) && pairs.contains((changes[i].spec_actor(), changes[i].spec_seq()))
    &&& forall|i: int, j: int| 0 <= i < j < changes.len() ==> (changes[i].spec_actor(), changes[i].spec_seq()) != (changes[j].spec_actor(), changes[j].spec_seq())
    &&& forall|a: ActorId, s: u64| #[trigger] pairs.contains((a, s)) ==> exists|i: int| at(changes, i, a, s)
}
pub open spec fn at(changes: Seq<Change>, i: int, a: ActorId, s: u64) -> bool {
    0 <= i < changes.len() && changes[i].spec_actor() == a && changes[i].spec_seq() == s
}

impl ChangeBatch {
    pub open spec fn wf(&self) -> bool { idx_wf(self.changes@, self.hashes@, self.incoming_actor_seqs@) }

//@ fn rust/automerge/src/change_queue.rs | impl ChangeBatch | new
//@   ret r
//@   spec
        ensures r.wf(), r.changes.len() == 0,
//@ end

//@ fn rust/automerge/src/change_queue.rs | impl ChangeBatch | push
//@   ret r
//@   spec
        requires old(self).wf(),
        ensures final(self).wf(),
            // C38: a second change claiming a taken (actor, seq) is rejected ...
            r is Err <==> (!old(self).hashes@.contains(change.spec_hash()) && old(self).incoming_actor_seqs@.contains((change.spec_actor(), change.spec_seq()))),
            // ... and then NOTHING changed (error-path frame, C06 flavour)
            r is Err ==> final(self).changes@ == old(self).changes@ && final(self).hashes@ == old(self).hashes@ && final(self).incoming_actor_seqs@ == old(self).incoming_actor_seqs@,
            // a change already in the batch (same hash) is ignored
            old(self).hashes@.contains(change.spec_hash()) ==> final(self).changes@ == old(self).changes@,
            // otherwise it is appended
            (r is Ok && !old(self).hashes@.contains(change.spec_hash())) ==> final(self).changes@ == old(self).changes@.push(change),
//@   after /self\.changes\.push\(change\);/
        proof {
            let n = old(self).changes.len() as int;
            assert(self.changes@ == old(self).changes@.push(change));
            assert forall|a: ActorId, s: u64| #[trigger] self.incoming_actor_seqs@.contains((a, s)) implies exists|i: int| at(self.changes@, i, a, s) by {
                if (a, s) == actor_seq {
                    assert(at(self.changes@, n, a, s));
                } else {
                    assert(old(self).incoming_actor_seqs@.contains((a, s)));
                    let i = choose|i: int| at(old(self).changes@, i, a, s);
                    assert(at(self.changes@, i, a, s));
                }
            }
            assert forall|i: int, j: int| 0 <= i < j < self.changes.len() implies (self.changes[i].spec_actor(), self.changes[i].spec_seq()) != (self.changes[j].spec_actor(), self.changes[j].spec_seq()) by {
                if j == n {
                    assert(old(self).incoming_actor_seqs@.contains((old(self).changes[i].spec_actor(), old(self).changes[i].spec_seq())));
                }
            }
        }
//@ end
}

impl ChangeQueue {
    pub open spec fn wf(&self) -> bool { idx_wf(self.changes@, self.hashes@, self.incoming_actor_seqs@) }

//@ fn rust/automerge/src/change_queue.rs | impl ChangeQueue | new
//@   ret r
//@   spec
        ensures r.wf(), r.changes.len() == 0,
//@ end

//@ fn rust/automerge/src/change_queue.rs | impl ChangeQueue | extend
//@   spec
        requires old(self).wf(), batch.wf(),
            // what apply_changes_batch establishes before calling extend (has_hash / has_actor_seq filters):
            forall|i: int| 0 <= i < batch.changes.len() ==> !old(self).hashes@.contains((#[trigger] batch.changes[i]).spec_hash())
                && !old(self).incoming_actor_seqs@.contains((batch.changes[i].spec_actor(), batch.changes[i].spec_seq())),
        ensures
            // C38: the queue keeps its index invariant -- in particular no two queued changes share (actor, seq)
            final(self).wf(),
            final(self).changes@ == old(self).changes@ + batch.changes@,
//@   loop 1 iter it
            invariant
                it.seq() == batch.changes@,
                self.changes@ == old(self).changes@ + batch.changes@.subrange(0, it.index@),
                idx_wf(self.changes@, self.hashes@, self.incoming_actor_seqs@),
                batch.wf(),
                forall|i: int| 0 <= i < batch.changes.len() ==> !old(self).hashes@.contains((#[trigger] batch.changes[i]).spec_hash())
                    && !old(self).incoming_actor_seqs@.contains((batch.changes[i].spec_actor(), batch.changes[i].spec_seq())),
                forall|a: ActorId, s: u64| #[trigger] self.incoming_actor_seqs@.contains((a, s)) ==> old(self).incoming_actor_seqs@.contains((a, s))
                    || exists|j: int| 0 <= j < it.index@ && batch.changes[j].spec_actor() == a && batch.changes[j].spec_seq() == s,
//@   before /let incoming_actor_seq = \(c\.actor_id\(\)\.clone\(\), c\.seq\(\)\);/
            let ghost pre_changes = self.changes@;
            let ghost pre_pairs = self.incoming_actor_seqs@;
            let ghost k = it.index@;
            proof { assert(c == batch.changes@[k]); }
//@   after /self\.changes\.push\(c\);/
            proof {
                let cs = self.changes@;
                let n = pre_changes.len() as int;
                let pr = (c.spec_actor(), c.spec_seq());
                assert(cs == pre_changes.push(c));
                assert(cs =~= old(self).changes@ + batch.changes@.subrange(0, k + 1));
                // the new pair is not among the pairs already indexed
                assert(!pre_pairs.contains(pr)) by {
                    if pre_pairs.contains(pr) {
                        if !old(self).incoming_actor_seqs@.contains(pr) {
                            let j = choose|j: int| 0 <= j < k && batch.changes[j].spec_actor() == pr.0 && batch.changes[j].spec_seq() == pr.1;
                            assert((batch.changes@[j].spec_actor(), batch.changes@[j].spec_seq()) != (batch.changes@[k].spec_actor(), batch.changes@[k].spec_seq()));
                        }
                    }
                }
                assert forall|a: ActorId, s: u64| #[trigger] self.incoming_actor_seqs@.contains((a, s)) implies exists|i: int| at(cs, i, a, s) by {
                    if (a, s) == pr { assert(at(cs, n, a, s)); } else {
                        assert(pre_pairs.contains((a, s)));
                        let i = choose|i: int| at(pre_changes, i, a, s);
                        assert(at(cs, i, a, s));
                    }
                }
                assert forall|i: int, j: int| 0 <= i < j < cs.len() implies (cs[i].spec_actor(), cs[i].spec_seq()) != (cs[j].spec_actor(), cs[j].spec_seq()) by {
                    if j == n { assert(pre_pairs.contains((pre_changes[i].spec_actor(), pre_changes[i].spec_seq()))); }
                }
                assert forall|a: ActorId, s: u64| #[trigger] self.incoming_actor_seqs@.contains((a, s)) implies (old(self).incoming_actor_seqs@.contains((a, s))
                    || exists|j: int| 0 <= j < k + 1 && batch.changes[j].spec_actor() == a && batch.changes[j].spec_seq() == s) by {
                    if (a, s) == pr { assert(batch.changes[k].spec_actor() == a && batch.changes[k].spec_seq() == s); }
                    else {
                        assert(pre_pairs.contains((a, s)));
                        if !old(self).incoming_actor_seqs@.contains((a, s)) {
                            let j = choose|j: int| 0 <= j < k && batch.changes[j].spec_actor() == a && batch.changes[j].spec_seq() == s;
                            assert(0 <= j < k + 1);
                        }
                    }
                }
            }
//@ end

//@ fn rust/automerge/src/change_queue.rs | impl ChangeQueue | is_empty
//@   ret r
//@   spec
        ensures r == (self.changes.len() == 0),
//@ end

//@ fn rust/automerge/src/change_queue.rs | impl ChangeQueue | has_hash
//@   ret r
//@   spec
        ensures r == self.hashes@.contains(*hash),
//@ end

//@ fn rust/automerge/src/change_queue.rs | impl ChangeQueue | has_actor_seq
//@   ret r
//@   spec
        // C38: under wf this answers "is some queued change claiming this (actor, seq)?"
        ensures r == self.incoming_actor_seqs@.contains((c.spec_actor(), c.spec_seq())),
            self.wf() ==> (r <==> exists|i: int| at(self.changes@, i, c.spec_actor(), c.spec_seq())),
//@ end
}

// ================================================================ change_graph.rs / automerge.rs: heads
/// heads are exactly the nodes no other node depends on
pub open spec fn heads_ok(nodes: Set<ChangeHash>, dep: spec_fn(ChangeHash, ChangeHash) -> bool, heads: Set<ChangeHash>) -> bool {
    forall|h: ChangeHash| heads.contains(h) <==> (nodes.contains(h) && forall|n: ChangeHash| nodes.contains(n) ==> !dep(n, h))
}
/// C04: "heads = applied changes nobody depends on" is preserved by the update
/// heads' = (heads \ deps) + {hash}   that update_heads / update_deps are proved to perform
pub proof fn lemma_heads_preserved(nodes: Set<ChangeHash>, dep: spec_fn(ChangeHash, ChangeHash) -> bool, heads: Set<ChangeHash>, c: ChangeHash, cdeps: Set<ChangeHash>)
    requires heads_ok(nodes, dep, heads), !nodes.contains(c), cdeps.subset_of(nodes), !cdeps.contains(c),
        forall|n: ChangeHash| nodes.contains(n) ==> !dep(n, c),   // nothing applied depends on the new change
    ensures
        heads_ok(nodes.insert(c), |a: ChangeHash, b: ChangeHash| if a == c { cdeps.contains(b) } else { dep(a, b) }, heads.difference(cdeps).insert(c)),
{
    let dep2 = |a: ChangeHash, b: ChangeHash| if a == c { cdeps.contains(b) } else { dep(a, b) };
    let nodes2 = nodes.insert(c);
    let heads2 = heads.difference(cdeps).insert(c);
    assert forall|h: ChangeHash| heads2.contains(h) <==> (nodes2.contains(h) && forall|n: ChangeHash| nodes2.contains(n) ==> !dep2(n, h)) by {
        if h == c {
            assert forall|n: ChangeHash| nodes2.contains(n) implies !dep2(n, h) by {}
        } else if heads2.contains(h) {
            assert(heads.contains(h) && !cdeps.contains(h));
            assert forall|n: ChangeHash| nodes2.contains(n) implies !dep2(n, h) by {}
        } else if nodes2.contains(h) && (forall|n: ChangeHash| nodes2.contains(n) ==> !dep2(n, h)) {
            assert(nodes2.contains(c));
            assert(!dep2(c, h));
            assert(!cdeps.contains(h));
            assert forall|n: ChangeHash| nodes.contains(n) implies !dep(n, h) by { assert(nodes2.contains(n)); assert(!dep2(n, h)); }
            assert(heads.contains(h));
        }
    }
}
pub proof fn lemma_push_to_set(s: Seq<ChangeHash>, x: ChangeHash)
    ensures s.push(x).to_set() =~= s.to_set().insert(x)
{
    let t = s.push(x);
    assert forall|y: ChangeHash| t.to_set().contains(y) <==> s.to_set().insert(x).contains(y) by {
        if t.contains(y) { let j = choose|j: int| 0 <= j < t.len() && t[j] == y; if j < s.len() { assert(s[j] == y); } }
        if s.contains(y) { let j = choose|j: int| 0 <= j < s.len() && s[j] == y; assert(t[j] == y); }
        if y == x { assert(t[s.len() as int] == y); }
    }
}
pub proof fn lemma_prefix_set_step(s: Seq<ChangeHash>, k: int)
    requires 0 <= k < s.len()
    ensures s.subrange(0, k + 1).to_set() =~= s.subrange(0, k).to_set().insert(s[k])
{
    let pre = s.subrange(0, k);
    let nxt = s.subrange(0, k + 1);
    let d = s[k];
    assert(nxt =~= pre.push(d));
    assert forall|x: ChangeHash| nxt.to_set().contains(x) <==> pre.to_set().insert(d).contains(x) by {
        if nxt.contains(x) { let j = choose|j: int| 0 <= j < nxt.len() && nxt[j] == x; if j < pre.len() { assert(pre[j] == x); } }
        if pre.contains(x) { let j = choose|j: int| 0 <= j < pre.len() && pre[j] == x; assert(nxt[j] == x); }
        if x == d { assert(nxt[pre.len() as int] == x); }
    }
}

/// the part of ChangeGraph that update_heads touches
pub struct ChangeGraphHeads { pub heads: BTreeSet<ChangeHash> }
impl ChangeGraphHeads {
//@ fn rust/automerge/src/change_graph.rs | impl ChangeGraph | update_heads
//@   spec
        ensures final(self).heads@ == old(self).heads@.difference(change.spec_deps().to_set()).insert(change.spec_hash()),
//@   loop 1 iter it
            invariant
                it.seq().len() == change.spec_deps().len(),
                forall|k: int| 0 <= k < it.seq().len() ==> *(#[trigger] it.seq()[k]) == change.spec_deps()[k],
                self.heads@ == old(self).heads@.difference(change.spec_deps().subrange(0, it.index@).to_set()),
//@   before /self\.heads\.remove\(d\);/
            proof {
                assert(*d == change.spec_deps()[it.index@ as int]);
                lemma_prefix_set_step(change.spec_deps(), it.index@ as int);
            }
//@   before /self\.heads\.insert\(change\.hash\(\)\);/
        proof { assert(change.spec_deps().subrange(0, change.spec_deps().len() as int) =~= change.spec_deps()); }
//@ end
}
/// the part of Automerge that update_deps touches
pub struct AutomergeDeps { pub deps: BTreeSet<ChangeHash>, pub own_actor: ActorId }
impl AutomergeDeps {
    /// accessor of the real Automerge a change to update_deps might plausibly consult (assumed)
    #[verifier::external_body] pub fn get_actor(&self) -> (r: &ActorId) ensures *r == self.own_actor { unimplemented!() }
//@ fn rust/automerge/src/automerge.rs | impl Automerge | update_deps
//@   spec
        ensures final(self).deps@ == old(self).deps@.difference(change.spec_deps().to_set()).insert(change.spec_hash()),
//@   loop 1 iter it
            invariant
                it.seq().len() == change.spec_deps().len(),
                forall|k: int| 0 <= k < it.seq().len() ==> *(#[trigger] it.seq()[k]) == change.spec_deps()[k],
                self.deps@ == old(self).deps@.difference(change.spec_deps().subrange(0, it.index@).to_set()),
//@   before /self\.deps\.remove\(d\);/
            proof {
                assert(*d == change.spec_deps()[it.index@ as int]);
                lemma_prefix_set_step(change.spec_deps(), it.index@ as int);
            }
//@   before /self\.deps\.insert\(change\.hash\(\)\);/
        proof { assert(change.spec_deps().subrange(0, change.spec_deps().len() as int) =~= change.spec_deps()); }
//@ end
}

// ================================================================ automerge.rs: transaction_args
#[verifier::external_body]
pub struct Clock { _p: () }
pub struct Isolation { pub actor_index: usize, pub seq: u64, pub clock: Clock }
pub struct ChangeGraph { pub g: Ghost<int> }
impl ChangeGraph {
    pub uninterp spec fn spec_seq(&self, actor: usize) -> u64;
    pub uninterp spec fn spec_heads(&self) -> Seq<ChangeHash>;
    pub uninterp spec fn spec_hash(&self, actor: usize, seq: u64) -> ChangeHash;
    pub uninterp spec fn spec_max_op(&self) -> u64;
    // ASSUMED accessor contracts (change-graph columns: not under contract)
    #[verifier::external_body]
    pub fn seq_for_actor(&self, actor: usize) -> (r: u64) ensures r == self.spec_seq(actor), r < u32::MAX { unimplemented!() }
    #[verifier::external_body]
    pub fn max_op(&self) -> (r: u64) ensures r == self.spec_max_op(), r <= u32::MAX { unimplemented!() }
}
pub struct OpSet { pub actors: Vec<ActorId> }
#[verifier::external_body]
pub struct ChangeQueueA { _p: () }
impl ChangeQueueA {
    /// ghost effect marker: "the queued branch of (actor, >= seq) and its dependants has been dropped"
    pub uninterp spec fn dropped(&self, a: ActorId, seq: u64) -> bool;
    #[verifier::external_body]
    pub fn remove_actor_branch_from(&mut self, actor: &ActorId, seq: u64) ensures final(self).dropped(*actor, seq) { unimplemented!() }
}
//@ item rust/automerge/src/transaction/inner.rs | struct TransactionArgs

pub struct Automerge { pub ops: OpSet, pub change_graph: ChangeGraph, pub queue: ChangeQueueA, pub configured_actor: ActorId }

impl Automerge {
    /// the document's CONFIGURED actor id (assumed accessor; under isolation the actor that signs the change may differ)
    #[verifier::external_body] pub fn get_actor(&self) -> (r: &ActorId) ensures *r == self.configured_actor { unimplemented!() }
    pub open spec fn spec_heads(&self) -> Seq<ChangeHash> { self.change_graph.spec_heads() }
    pub open spec fn spec_hash(&self, actor: usize, seq: u64) -> ChangeHash { self.change_graph.spec_hash(actor, seq) }
    #[verifier::external_body]
    pub fn get_heads(&self) -> (r: Vec<ChangeHash>) ensures r@ == self.spec_heads() { unimplemented!() }
    #[verifier::external_body]
    pub fn get_hash(&self, actor: usize, seq: u64) -> (r: Result<ChangeHash, AutomergeError>) ensures 1 <= seq <= self.change_graph.spec_seq(actor) ==> r == Ok::<ChangeHash, AutomergeError>(self.spec_hash(actor, seq)) { unimplemented!() }
    #[verifier::external_body]
    pub fn get_or_create_actor_index(&mut self) -> (r: usize) ensures r < final(self).ops.actors.len(), final(self).change_graph == old(self).change_graph, final(self).queue == old(self).queue { unimplemented!() }
    #[verifier::external_body]
    pub fn isolate_actor(&mut self, heads: &[ChangeHash]) -> (r: Isolation) ensures r.actor_index < final(self).ops.actors.len(), final(self).change_graph == old(self).change_graph, final(self).queue == old(self).queue { unimplemented!() }

//@ fn rust/automerge/src/automerge.rs | impl Automerge | transaction_args
//@   ret r
//@   after /^                        deps\.push\(last_hash\);$/
                        proof { lemma_push_to_set(old(self).spec_heads(), last_hash); }
//@   after /^                    let last_hash = self\.get_hash\(actor_index, seq - 1\)\.unwrap\(\);$/
                    proof { if old(self).spec_heads().contains(last_hash) { assert(old(self).spec_heads().to_set().insert(last_hash) =~= old(self).spec_heads().to_set()); } }
//@   spec
        ensures
            // C04: start op is one past every op the document has applied
            r.start_op.get() == final(self).change_graph.spec_max_op() + 1,
            // C04: next sequence number of the actor
            heads is None ==> r.seq == final(self).change_graph.spec_seq(r.actor_index) + 1,
            // C04 (dependencies are compared as SETS: the property does not fix their order):
            // isolated => deps are exactly the isolation heads
            heads matches Some(h) ==> r.deps@.to_set() == h@.to_set(),
            // not isolated => deps are the current heads plus the actor's own previous change
            heads is None ==> ({
                let hs = old(self).spec_heads();
                let a = r.actor_index;
                let prev_seq = final(self).change_graph.spec_seq(a);
                if prev_seq >= 1 { r.deps@.to_set() == hs.to_set().insert(final(self).spec_hash(a, prev_seq)) } else { r.deps@.to_set() == hs.to_set() }
            }),
            // C38: the conflicting queued branch of (actor, seq) is dropped before the transaction starts
            final(self).queue.dropped(final(self).ops.actors[r.actor_index as int], r.seq),
//@ end
}

// ================================================================ automerge.rs: has_actor_seq
/// the part of Automerge that has_actor_seq touches; `seq_for_actor` (Option::map closure over the
/// actor lookup and the change-graph column) is ASSUMED: highest applied seq of the actor, 0 if unknown
pub struct AutomergeSeq { pub g: Ghost<int> }
impl AutomergeSeq {
    pub uninterp spec fn spec_applied_seq(&self, a: ActorId) -> u64;
    #[verifier::external_body]
    pub fn seq_for_actor(&self, actor: &ActorId) -> (r: u64) ensures r == self.spec_applied_seq(*actor) { unimplemented!() }

//@ fn rust/automerge/src/automerge.rs | impl Automerge | has_actor_seq
//@   ret r
//@   spec
        // C38: (with the change-graph invariant "the applied seqs of an actor are 1..=seq_for_actor")
        // true exactly when the document already holds a change with this actor and sequence number
        ensures r == (change.spec_seq() <= self.spec_applied_seq(change.spec_actor())),
//@ end
}

// ================================================================ op_set2/change/batch.rs: the batch-apply admission loop (C38)
#[verifier::external_body] pub struct PatchLog { _p: () }
pub struct PatchLogMismatch;
impl vstd::std_specs::convert::FromSpecImpl<PatchLogMismatch> for AutomergeError {
    open spec fn obeys_from_spec() -> bool { true }
    open spec fn from_spec(e: PatchLogMismatch) -> Self { AutomergeError::Other }
}
impl From<PatchLogMismatch> for AutomergeError { fn from(e: PatchLogMismatch) -> Self { AutomergeError::Other } }
/// the change graph as far as the admission loop consults it
#[verifier::external_body] pub struct ChangeGraphB { _p: () }
impl ChangeGraphB {
    pub uninterp spec fn spec_has(&self, h: ChangeHash) -> bool;
    #[verifier::external_body]
    pub fn has_change(&self, h: &ChangeHash) -> (r: bool) ensures r == self.spec_has(*h) { unimplemented!() }
    /// read-only accessor a variant of the admission loop may consult (no contract beyond totality)
    #[verifier::external_body]
    pub fn seq_for_actor(&self, actor: usize) -> (r: u64) ensures r < u32::MAX { unimplemented!() }
}
/// std: `Option::map_or` (no vstd specification)
pub assume_specification<T, U, F: FnOnce(T) -> U>[ Option::<T>::map_or ](o: Option<T>, default: U, f: F) -> (r: U)
    requires o matches Some(x) ==> f.requires((x,)),
    ensures o is None ==> r == default, o matches Some(x) ==> f.ensures((x,), r);
/// the op set as far as the admission loop may consult it (read-only, no contract beyond totality)
#[verifier::external_body] pub struct OpSetB { _p: () }
impl OpSetB { #[verifier::external_body] pub fn lookup_actor(&self, a: &ActorId) -> (r: Option<usize>) { unimplemented!() } }
impl ChangeQueue {
    /// ASSUMED (closures over HashMap/VecDeque): dropping a queued branch keeps the index invariant
    #[verifier::external_body]
    pub fn remove_actor_branch_from(&mut self, actor: &ActorId, seq: u64)
        requires old(self).wf(), ensures final(self).wf() { unimplemented!() }
    /// ASSUMED (Kahn's algorithm over HashMap/VecDeque): releasing the ready changes keeps the index invariant
    #[verifier::external_body]
    pub fn pop_topo_sorted_ready(&mut self, g: &ChangeGraphB) -> (r: Vec<Change>)
        requires old(self).wf(), ensures final(self).wf() { unimplemented!() }
}
#[verifier::external_body] pub struct BatchApply { _p: () }
impl BatchApply {
    #[verifier::external_body] pub fn default() -> BatchApply { unimplemented!() }
    #[verifier::external_body] pub fn push(&mut self, c: Change) { unimplemented!() }
    /// applies the released changes; the queue is not touched (ASSUMED)
    #[verifier::external_body]
    pub fn apply(&mut self, doc: &mut AutomergeBatch, log: &mut PatchLog) -> (r: Result<(), PatchLogMismatch>)
        ensures final(doc).queue == old(doc).queue { unimplemented!() }
}
/// the items an `IntoIterator<Item = Change>` yields (abstract)
pub uninterp spec fn change_items<I>(it: I) -> Seq<Change>;
/// a change the document neither applied nor queued (what the `filter` closure of the real code keeps)
pub open spec fn is_new(c: Change, g: ChangeGraphB, q: ChangeQueue) -> bool {
    !g.spec_has(c.spec_hash()) && !q.hashes@.contains(c.spec_hash())
}
/// trusted wrapper for
///   `changes.into_iter().filter(|c| { let hash = c.hash(); !(self.change_graph.has_change(&hash) || self.queue.has_hash(&hash)) })`
/// (iterator adapter: outside this Verus).  The substitution matches that EXACT text; it yields, in order, the new changes.
#[verifier::external_body]
pub fn vf_filter_new<I: IntoIterator<Item = Change>>(changes: I, g: &ChangeGraphB, q: &ChangeQueue) -> (r: Vec<Change>)
    ensures
        forall|k: int| 0 <= k < r.len() ==> is_new(#[trigger] r[k], *g, *q),
        forall|j: int| 0 <= j < change_items(changes).len() && is_new(#[trigger] change_items(changes)[j], *g, *q)
            ==> exists|k: int| 0 <= k < r.len() && r[k] == change_items(changes)[j],
{ unimplemented!() }

pub struct AutomergeBatch { pub change_graph: ChangeGraphB, pub queue: ChangeQueue, pub seqs: AutomergeSeq, pub ops: OpSetB }
impl AutomergeBatch {
    /// contract of Automerge::has_actor_seq, proved above on the real body
    #[verifier::external_body]
    pub fn has_actor_seq(&self, change: &Change) -> (r: bool)
        ensures r == (change.spec_seq() <= self.seqs.spec_applied_seq(change.spec_actor())) { unimplemented!() }

//@ fn rust/automerge/src/op_set2/change/batch.rs | impl Automerge | apply_changes_batch_log_patches
//@   ret r
//@   subst /changes\.into_iter\(\)\.filter\(\|c\| \{\s*let hash = c\.hash\(\);\s*!\(self\.change_graph\.has_change\(&hash\) \|\| self\.queue\.has_hash\(&hash\)\)\s*\}\)/ => vf_filter_new(changes, &self.change_graph, &self.queue)
//@   spec
        requires old(self).queue.wf(),
        ensures
            // C38: a batch is admitted only if none of its NEW changes claims an (actor, seq) the document has applied ...
            r is Ok ==> forall|j: int| 0 <= j < change_items(changes).len() && is_new(#[trigger] change_items(changes)[j], old(self).change_graph, old(self).queue)
                ==> !(change_items(changes)[j].spec_seq() <= old(self).seqs.spec_applied_seq(change_items(changes)[j].spec_actor())),
            // ... or that a queued change already claims (this is also what `ChangeQueue::extend` requires: obligation at its call)
            r is Ok ==> forall|j: int| 0 <= j < change_items(changes).len() && is_new(#[trigger] change_items(changes)[j], old(self).change_graph, old(self).queue)
                ==> !old(self).queue.incoming_actor_seqs@.contains((change_items(changes)[j].spec_actor(), change_items(changes)[j].spec_seq())),
            final(self).queue.wf(),
//@   loop 1 iter it
            invariant
                self.queue == old(self).queue, self.change_graph == old(self).change_graph, self.seqs == old(self).seqs,
                self.queue.wf(), batch.wf(),
                forall|k: int| 0 <= k < it.seq().len() ==> is_new(#[trigger] it.seq()[k], old(self).change_graph, old(self).queue),
                forall|k: int| 0 <= k < it.index@ ==> !((#[trigger] it.seq()[k]).spec_seq() <= old(self).seqs.spec_applied_seq(it.seq()[k].spec_actor()))
                    && !old(self).queue.incoming_actor_seqs@.contains((it.seq()[k].spec_actor(), it.seq()[k].spec_seq())),
                forall|i: int| 0 <= i < batch.changes.len() ==> !old(self).queue.hashes@.contains((#[trigger] batch.changes[i]).spec_hash())
                    && !old(self).queue.incoming_actor_seqs@.contains((batch.changes[i].spec_actor(), batch.changes[i].spec_seq())),
//@   before /batch\.push\(c\)\?;/
            let ghost pre_batch = batch.changes@;
//@   after /batch\.push\(c\)\?;/
            proof {
                assert(batch.changes@ == pre_batch || batch.changes@ == pre_batch.push(c));
            }
//@ end
}

} // verus!
fn main() {}
