// U13 load loop -- rust/automerge/src/storage/load.rs::load_changes   (engine V, includes the parser layer of u02)
use vstd::prelude::*;
use core::num::NonZeroUsize;
use std::num::NonZeroU64;
use std::convert::TryInto;
verus! {

//@ include u02_parse.vt.rs

pub mod parse { pub use super::Input; }
/// other items of `crate::storage` that code in load.rs may name
pub mod storage {
    pub use super::parse;
//@ item rust/automerge/src/storage.rs | const MAGIC_BYTES
}
pub use storage::MAGIC_BYTES;
pub mod load {
use super::*;
use vstd::prelude::*;

// ---------------------------------------------------------------- assumed environment (trusted)
#[verifier::external_body] pub struct Change { _p: () }
#[verifier::external_body] pub struct ChangeGraph { _p: () }
#[verifier::external_body] pub struct Error { _p: () }
#[derive(Clone, Copy)] pub struct TextEncoding(pub u8);
//@ item rust/automerge/src/storage/load.rs | enum MarkOrderValidation
//@ item rust/automerge/src/storage/load.rs | enum LoadedChanges

/// what ONE chunk at the head of `s` is, abstractly: its length in bytes if `load_next_change` accepts
/// it (0 otherwise) and the changes it contributes.  Uninterpreted: chunk parsing, checksum validation
/// and change reconstruction (Chunk::parse, columns, document reconstruct) are NOT under contract.
pub uninterp spec fn chunk_len(s: Seq<u8>) -> int;
pub uninterp spec fn chunk_changes(s: Seq<u8>) -> Seq<Change>;
/// ASSUMED contract of load_next_change: it either accepts exactly the leading chunk (consuming its
/// bytes -- at least one -- and appending its changes) or fails leaving `changes` untouched.
#[verifier::external_body]
fn load_next_change<'a>(
    data: parse::Input<'a>,
    changes: &mut Vec<Change>,
    text_encoding: TextEncoding,
    current: &ChangeGraph,
    mark_order: MarkOrderValidation,
) -> (r: Result<parse::Input<'a>, Error>)
    requires data.wf(),
    ensures
        r is Ok <==> 0 < chunk_len(data.bytes@) <= data.bytes.len(),
        r matches Ok(rem) ==> rem.wf() && rem.bytes@ == data.bytes@.subrange(chunk_len(data.bytes@), data.bytes.len() as int)
            && final(changes)@ == old(changes)@ + chunk_changes(data.bytes@),
        r is Err ==> final(changes)@ == old(changes)@,
{ unimplemented!() }

/// number of bytes covered by the longest run of acceptable chunks at the head of `s`
pub open spec fn good_prefix(s: Seq<u8>) -> int decreases s.len() {
    if s.len() == 0 { 0 }
    else if 0 < chunk_len(s) <= s.len() { chunk_len(s) + good_prefix(s.subrange(chunk_len(s), s.len() as int)) }
    else { 0 }
}
/// the changes of exactly those chunks, in file order
pub open spec fn good_changes(s: Seq<u8>) -> Seq<Change> decreases s.len() {
    if s.len() == 0 { Seq::empty() }
    else if 0 < chunk_len(s) <= s.len() { chunk_changes(s) + good_changes(s.subrange(chunk_len(s), s.len() as int)) }
    else { Seq::empty() }
}

//@ fn rust/automerge/src/storage/load.rs | load_changes
//@   ret r
//@   attr #[verifier::loop_isolation(false)]
//@   spec
    requires data.wf(),
    ensures
        // C13: a strict load succeeds ONLY at chunk boundaries: Complete exactly when the input is a
        // sequence of acceptable chunks with nothing left over ...
        r is Complete <==> good_prefix(data.bytes@) == data.bytes.len(),
        // ... and either way the changes handed on are those of EVERY chunk fully inside the input,
        // in order -- nothing dropped, nothing from the broken tail
        r matches LoadedChanges::Complete(c) ==> c@ == good_changes(data.bytes@),
        r matches LoadedChanges::Partial { loaded, remaining, .. } ==> loaded@ == good_changes(data.bytes@)
            && remaining.bytes@ == data.bytes@.subrange(good_prefix(data.bytes@), data.bytes.len() as int),
//@   before /^    let mut changes = Vec::new\(\);$/
    let ghost orig = data;
    let ghost mut done: int = 0;
//@   loop 1
        invariant
            data.wf(), orig.wf(), 0 <= done <= orig.bytes.len(),
            data.bytes@ == orig.bytes@.subrange(done, orig.bytes.len() as int),
            good_prefix(orig.bytes@) == done + good_prefix(data.bytes@),
            good_changes(orig.bytes@) == changes@ + good_changes(data.bytes@),
        decreases data.bytes.len(),
//@   before /^        data = remaining\.reset\(\);$/
        proof {
            let k = chunk_len(data.bytes@);
            assert(remaining.bytes@ =~= orig.bytes@.subrange(done + k, orig.bytes.len() as int));
            done = done + k;
        }
//@ end
} // mod load

} // verus!
fn main() {}
