#![feature(allocator_api)]
// U14 load policy -- rust/automerge/src/automerge.rs::load_with_options_and_mark_validation  (engine V)
use vstd::prelude::*;
verus! {

// ================= assumed environment =================
#[verifier::external_type_specification]
#[verifier::external_body]
#[verifier::reject_recursive_types(A)]
#[verifier::reject_recursive_types(B)]
pub struct ExChain<A, B>(core::iter::Chain<A, B>);

/// trusted wrapper for `a.into_iter().chain(b)` (`Iterator::chain` is a provided trait method: this Verus cannot
/// attach a specification to it); its body IS that expression, its meaning: the items of a, then the items of b
#[verifier::external_body]
pub fn vf_chain(a: Vec<Change>, b: Vec<Change>) -> (r: core::iter::Chain<std::vec::IntoIter<Change>, std::vec::IntoIter<Change>>)
    ensures iter_seq(r) == a@ + b@
{ a.into_iter().chain(b) }

/// std: `Vec::extend(Vec<T>)` appends the items of the argument (ASSUMED; vstd has no spec for Extend)
pub uninterp spec fn iter_items<I, T>(it: I) -> Seq<T>;
pub assume_specification<T, A: core::alloc::Allocator, I: IntoIterator<Item = T>>[ <Vec<T, A> as Extend<T>>::extend::<I> ](v: &mut Vec<T, A>, iter: I)
    ensures final(v)@ == old(v)@ + iter_items::<I, T>(iter);


#[verifier::external_body] pub struct Change { _p: () }
impl Clone for Change { #[verifier::external_body] fn clone(&self) -> Self { unimplemented!() } }
#[verifier::external_body] pub struct PatchLog { _p: () }
impl PatchLog { #[verifier::external_body] pub fn is_active(&self) -> bool { unimplemented!() } }
#[verifier::external_body] pub struct ObjMeta { _p: () }
impl ObjMeta { #[verifier::external_body] pub fn root() -> ObjMeta { unimplemented!() } }
#[derive(Clone, Copy)] pub enum TextEncoding { A, B }
#[derive(Clone, Copy, PartialEq, Eq, Structural)] pub enum VerificationMode { Check, DontCheck }
#[derive(PartialEq, Eq, Clone, Copy, Structural)] pub enum OnPartialLoad { Ignore, Error }
pub enum StringMigration { NoMigration, ConvertToText }
pub struct LoadOptions<'a> {
    pub on_partial_load: OnPartialLoad,
    pub verification_mode: VerificationMode,
    pub string_migration: StringMigration,
    pub patch_log: Option<&'a mut PatchLog>,
    pub text_encoding: TextEncoding,
}
pub enum AutomergeError { Load(load::Error), MissingDeps, Other }
impl vstd::std_specs::convert::FromSpecImpl<load::Error> for AutomergeError {
    open spec fn obeys_from_spec() -> bool { true }
    open spec fn from_spec(v: load::Error) -> Self { AutomergeError::Load(v) }
}
impl From<load::Error> for AutomergeError { fn from(e: load::Error) -> Self { AutomergeError::Load(e) } }

#[verifier::external_body] pub struct ChangeGraph { _p: () }
pub struct ChangeQueue { pub n: usize }
impl ChangeQueue { pub fn is_empty(&self) -> bool { self.n == 0 } }

pub enum ReconstructError {
    InvalidMaxOp,
    InvalidMarkOrderDoc { doc: Box<Automerge>, error_message: String },
}

pub mod storage {
    use vstd::prelude::*;
    use super::*;
    verus!{
//@ item rust/automerge/src/storage.rs | const MAGIC_BYTES
    pub mod parse {
        use vstd::prelude::*;
        verus!{
        #[derive(Clone, Copy)]
        pub struct Input<'a> { pub bytes: &'a [u8] }
        impl<'a> Input<'a> {
            pub fn new(bytes: &'a [u8]) -> (r: Self) ensures r.bytes@ == bytes@ { Input { bytes } }
            pub fn reset(&self) -> (r: Input<'a>) ensures r.bytes@ == self.bytes@ { Input { bytes: self.bytes } }
        }
        #[verifier::external_body] pub struct ParseErr { _p: () }
        }
    }
    #[verifier::external_body] pub struct Document<'a> { _p: core::marker::PhantomData<&'a ()> }
    #[verifier::external_body] pub struct StoredChange<'a> { _p: core::marker::PhantomData<&'a ()> }
    #[verifier::external_body] pub struct StoredChangeOwned { _p: () }
    #[verifier::external_body] pub struct BundleStorage<'a> { _p: core::marker::PhantomData<&'a ()> }
    #[verifier::external_body] pub struct BundleStorageOwned { _p: () }
    #[verifier::external_body] pub struct Compressed<'a> { _p: core::marker::PhantomData<&'a ()> }
    #[verifier::external_body] pub struct CompressedOwned { _p: () }
    impl<'a> StoredChange<'a> { #[verifier::external_body] pub fn into_owned(self) -> StoredChangeOwned { unimplemented!() } }
    impl<'a> BundleStorage<'a> { #[verifier::external_body] pub fn into_owned(self) -> BundleStorageOwned { unimplemented!() } }
    impl<'a> Compressed<'a> { #[verifier::external_body] pub fn into_owned(self) -> CompressedOwned { unimplemented!() } }
    impl<'a> Document<'a> {
        /// the changes a document chunk stands for (abstract)
        pub uninterp spec fn spec_changes(&self) -> Seq<Change>;
        #[verifier::external_body]
        pub fn reconstruct(&self, m: VerificationMode, t: TextEncoding) -> (r: Result<Automerge, ReconstructError>)
            ensures r matches Ok(d) ==> d.applied@ == self.spec_changes(),
                    r matches Err(ReconstructError::InvalidMarkOrderDoc{doc, error_message}) ==> doc.applied@ == self.spec_changes()
        { unimplemented!() }
    }
    /// abstract view of the FIRST chunk of a byte string: does it parse, is its checksum right, what follows it
    pub uninterp spec fn spec_first_ok(s: Seq<u8>) -> bool;
    pub uninterp spec fn spec_first_valid(s: Seq<u8>) -> bool;
    pub uninterp spec fn spec_rest(s: Seq<u8>) -> Seq<u8>;
    pub enum Chunk<'a> {
        Document(Document<'a>),
        Change(StoredChange<'a>),
        Bundle(BundleStorage<'a>),
        CompressedChange(StoredChange<'static>, Compressed<'a>),
    }
    impl<'a> Chunk<'a> {
        /// "the checksum stored in the chunk matches the hash of its bytes" (decided by U03's obligations)
        pub uninterp spec fn spec_valid(&self) -> bool;
        #[verifier::external_body]
        pub fn parse(input: parse::Input<'a>) -> (r: Result<(parse::Input<'a>, Chunk<'a>), parse::ParseErr>)
            ensures r is Ok <==> spec_first_ok(input.bytes@),
                r matches Ok((rem, c)) ==> rem.bytes@ == spec_rest(input.bytes@) && c.spec_valid() == spec_first_valid(input.bytes@)
        { unimplemented!() }
        #[verifier::external_body]
        pub fn checksum_valid(&self) -> (r: bool) ensures r == self.spec_valid() { unimplemented!() }
    }
    }
}
#[verifier::external_body] pub struct ChgErr { _p: () }
#[verifier::external_body] pub struct BundleErr { _p: () }
#[verifier::external_body] pub struct Bundle { _p: () }
impl Bundle {
    #[verifier::external_body] pub fn new_from_unverified(b: storage::BundleStorageOwned) -> Result<Bundle, BundleErr> { unimplemented!() }
    #[verifier::external_body] pub fn to_changes(&self) -> Result<Vec<Change>, BundleErr> { unimplemented!() }
}
impl Change {
    #[verifier::external_body] pub fn new_from_unverified(c: storage::StoredChangeOwned, k: Option<storage::CompressedOwned>) -> Result<Change, ChgErr> { unimplemented!() }
}

pub mod load {
    use vstd::prelude::*;
    use super::*;
    verus!{
    #[derive(Clone, Copy, PartialEq, Eq)]
    pub enum MarkOrderValidation { Validate, AllowInvalid }
    impl MarkOrderValidation { pub fn allows_invalid(self) -> bool { matches!(self, Self::AllowInvalid) } }
    /// the boxed `dyn Error` payloads of load::Error are opaque here (this Verus's trait-conflict checker rejects
    /// `dyn std::error::Error`); `Box::new(e)` in the six error-mapping closures is substituted by `vf_err_box(e)`
    #[verifier::external_body] pub struct ErrBox { _p: () }
    #[verifier::external_body] pub fn vf_err_box<E>(e: E) -> ErrBox { unimplemented!() }
    pub enum Error {
        Parse(ErrBox),
        InvalidChangeColumns(ErrBox),
        InvalidOpsColumns(ErrBox),
        LeftoverData,
        InvalidBundleColumn(ErrBox),
        InvalidBundleChange(ErrBox),
        InflateDocument(ErrBox),
        BadChecksum,
    }
    pub enum LoadedChanges<'a> {
        Complete(Vec<Change>),
        Partial { loaded: Vec<Change>, remaining: storage::parse::Input<'a>, error: Error },
    }
    pub uninterp spec fn spec_load(bytes: Seq<u8>) -> (Seq<Change>, bool);
    #[verifier::external_body]
    pub fn load_changes<'a>(data: storage::parse::Input<'a>, t: TextEncoding, current: &ChangeGraph, m: MarkOrderValidation) -> (r: LoadedChanges<'a>)
        ensures (r matches LoadedChanges::Complete(c) ==> spec_load(data.bytes@) == (c@, true)),
                (r matches LoadedChanges::Partial{loaded, remaining, error} ==> spec_load(data.bytes@) == (loaded@, false)),
    { unimplemented!() }
    }
}

pub uninterp spec fn iter_seq<I: IntoIterator<Item = Change>>(i: I) -> Seq<Change>;
/// `a` is some prefix followed by exactly `tail`
pub open spec fn ends_with(a: Seq<Change>, tail: Seq<Change>) -> bool { exists|first: Seq<Change>| a == #[trigger] (first + tail) }
pub struct Automerge { pub change_graph: ChangeGraph, pub queue: ChangeQueue, pub applied: Ghost<Seq<Change>> }

impl Automerge {
    #[verifier::external_body] pub fn new() -> (r: Self) ensures r.applied@ == Seq::<Change>::empty() { unimplemented!() }
    #[verifier::external_body] pub fn new_with_encoding(t: TextEncoding) -> (r: Self) ensures r.applied@ == Seq::<Change>::empty() { unimplemented!() }
    #[verifier::external_body]
    pub fn apply_changes<I: IntoIterator<Item = Change> + Clone>(&mut self, changes: I) -> (r: Result<(), AutomergeError>)
        ensures r is Ok ==> final(self).applied@ == old(self).applied@ + iter_seq(changes) { unimplemented!() }
    #[verifier::external_body]
    pub fn convert_scalar_strings_to_text(&mut self) -> (r: Result<(), AutomergeError>) ensures final(self).applied@ == old(self).applied@ { unimplemented!() }
    #[verifier::external_body]
    pub fn log_current_state(&self, o: ObjMeta, p: &mut PatchLog, rec: bool) { unimplemented!() }

//@ fn rust/automerge/src/automerge.rs | impl Automerge | load_with_options_and_mark_validation
//@   ret r
//@   subst /changes\.into_iter\(\)\.chain\((\w+)\)/ => vf_chain(changes, \1)
//@   subst /Box::new\(e\)/ => load::vf_err_box(e)
//@   before /^        match load::load_changes\($/
        let ghost pre = am.applied@;
        let ghost chs = changes@;
//@   after /^                am\.apply_changes\(vf_chain\(changes, c\)\)\?;$/
                proof { assert(am.applied@ =~= (pre + chs) + c@); assert(ends_with(am.applied@, c@)); }
//@   after /^                am\.apply_changes\(vf_chain\(changes, loaded\)\)\?;$/
                proof { assert(am.applied@ =~= (pre + chs) + loaded@); assert(ends_with(am.applied@, loaded@)); }
//@   spec
        ensures
            data.len() == 0 ==> (r matches Ok(am) && am.applied@ == Seq::<Change>::empty()),
            // C14: a document is only returned when the first chunk's checksum was found valid
            (data.len() > 0 && r is Ok) ==> storage::spec_first_ok(data@) && storage::spec_first_valid(data@),
            // C13: a STRICT load (OnPartialLoad::Error) fails unless every chunk after the first loaded completely --
            // whatever the verification mode and whatever kind of chunk came first
            (data.len() > 0 && options.on_partial_load == OnPartialLoad::Error && !load::spec_load(storage::spec_rest(data@)).1) ==> r is Err,
            // C13: a LENIENT load keeps every change of every chunk that loaded before the broken one (D8):
            // what is applied on top of the first chunk's document ends with exactly spec_load(rest).0
            r matches Ok(am) ==> (data.len() > 0 ==> ends_with(am.applied@, load::spec_load(storage::spec_rest(data@)).0)),
//@ end

}
}
macro_rules! errstub { ($($t:ty),*) => { $(
impl std::fmt::Debug for $t { fn fmt(&self, _: &mut std::fmt::Formatter<'_>) -> std::fmt::Result { Ok(()) } }
impl std::fmt::Display for $t { fn fmt(&self, _: &mut std::fmt::Formatter<'_>) -> std::fmt::Result { Ok(()) } }
impl std::error::Error for $t {}
)* } }
errstub!(storage::parse::ParseErr, ChgErr, BundleErr, ReconstructError);
fn main() {}
