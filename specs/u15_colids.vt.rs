// U15 id column iterators -- columnar/column_range/{obj_id,key,opid_list}.rs  (engine V)
// The RLE / delta decoders are ARBITRARY sources here: whatever (well-typed) values untrusted column bytes decode to,
// the three try_next functions must return a value or an error -- in particular they must meet OpId::new's precondition.
use vstd::prelude::*;
verus! {
global layout usize is size == 8;

// ---------------------------------------------------------------- assumed environment (trusted)
#[verifier::external_body] pub struct DecodeError { _p: () }
#[verifier::external_body] pub struct SmolStr { _p: () }
pub mod smol_str { pub use super::SmolStr; }
/// columnar::encoding::{RleDecoder, DeltaDecoder}: any sequence of values / nulls / errors
#[verifier::external_body]
#[verifier::reject_recursive_types(T)]
pub struct RleDecoder<'a, T> { _p: core::marker::PhantomData<&'a T> }
impl<'a, T> RleDecoder<'a, T> {
    #[verifier::external_body] pub fn next(&mut self) -> (r: Option<Result<Option<T>, DecodeError>>) { unimplemented!() }
}
#[verifier::external_body] pub struct DeltaDecoder<'a> { _p: core::marker::PhantomData<&'a ()> }
impl<'a> DeltaDecoder<'a> {
    #[verifier::external_body] pub fn next(&mut self) -> (r: Option<Result<Option<i64>, DecodeError>>) { unimplemented!() }
}
impl Clone for SmolStr { #[verifier::external_body] fn clone(&self) -> (r: Self) ensures r == *self { unimplemented!() } }
impl PartialEq for SmolStr { #[verifier::external_body] fn eq(&self, o: &Self) -> bool { unimplemented!() } }
impl<'a, T> Clone for RleDecoder<'a, T> { #[verifier::external_body] fn clone(&self) -> Self { unimplemented!() } }
impl<'a> Clone for DeltaDecoder<'a> { #[verifier::external_body] fn clone(&self) -> Self { unimplemented!() } }
#[verifier::external_body] pub struct DecodeColumnError { _p: () }
impl DecodeColumnError {
    #[verifier::external_body] pub fn decode_raw(col: &str, e: DecodeError) -> Self { unimplemented!() }
    #[verifier::external_body] pub fn unexpected_null(col: &str) -> Self { unimplemented!() }
    #[verifier::external_body] pub fn invalid_value(col: &str, desc: &str) -> Self { unimplemented!() }
}
/// std: lossless integer widening (vstd specifies u64::from(u32) but not i64::from(u32))
pub assume_specification[ <i64 as From<u32>>::from ](v: u32) -> (r: i64) ensures r == v as i64;
pub assume_specification<T: Ord>[ core::cmp::min ](a: T, b: T) -> (r: T) ensures r == a || r == b;
pub assume_specification<T, E>[ Option::<Result<T, E>>::transpose ](o: Option<Result<T, E>>) -> (r: Result<Option<T>, E>)
    ensures r == (match o { Some(Ok(x)) => Ok::<Option<T>, E>(Some(x)), Some(Err(e)) => Err::<Option<T>, E>(e), None => Ok::<Option<T>, E>(None) });

//@ item rust/automerge/src/types.rs | struct OpId
//@ item rust/automerge/src/types.rs | struct ObjId
//@ item rust/automerge/src/types.rs | struct ElemId
//@ item rust/automerge/src/columnar/column_range/key.rs | enum Key
impl OpId {
//@ fn rust/automerge/src/types.rs | impl OpId | new
//@   ret r
//@   spec
        requires counter <= u32::MAX, actor <= u32::MAX,
        ensures r.0 == counter, r.1 == actor,
//@ end
}
impl ObjId {
//@ fn rust/automerge/src/types.rs | impl ObjId | root
//@   ret r
//@   spec
        ensures r.0.0 == 0 && r.0.1 == 0,
//@ end
}

//@ item rust/automerge/src/columnar/column_range/obj_id.rs | struct ObjIdIter
impl ObjIdIter<'_> {
//@ fn rust/automerge/src/columnar/column_range/obj_id.rs | impl ObjIdIter<'_> | try_next
//@   ret r
//@   spec
        // C15: total for every value the untrusted actor / counter columns can decode to
        ensures true,
//@ end
}

//@ item rust/automerge/src/columnar/column_range/key.rs | struct KeyIter
impl KeyIter<'_> {
//@ fn rust/automerge/src/columnar/column_range/key.rs | impl KeyIter<'_> | try_next
//@   ret r
//@   spec
        ensures true,
//@ end
}

//@ item rust/automerge/src/columnar/column_range/opid_list.rs | struct OpIdListIter
impl OpIdListIter<'_> {
//@ fn rust/automerge/src/columnar/column_range/opid_list.rs | impl OpIdListIter<'_> | try_next
//@   ret r
//@   spec
        ensures true,
//@ end
}

// ================================================================ op_set2/op_set/op_iter.rs: ids read from DOCUMENT op columns
//@ item rust/automerge/src/op_set2/types.rs | struct ActorIdx
impl vstd::std_specs::convert::FromSpecImpl<ActorIdx> for u64 {
    open spec fn obeys_from_spec() -> bool { true }
    open spec fn from_spec(v: ActorIdx) -> u64 { v.0 as u64 }
}
impl From<ActorIdx> for u64 {
//@ fn rust/automerge/src/op_set2/types.rs | impl From<ActorIdx> for u64 | from
//@   ret r
//@   spec
        ensures r == val.0 as u64,
//@ end
}
impl vstd::std_specs::convert::FromSpecImpl<ActorIdx> for usize {
    open spec fn obeys_from_spec() -> bool { true }
    open spec fn from_spec(v: ActorIdx) -> usize { v.0 as usize }
}
impl From<ActorIdx> for usize {
//@ fn rust/automerge/src/op_set2/types.rs | impl From<ActorIdx> for usize | from
//@   ret r
//@   spec
        ensures r == val.0 as usize,
//@ end
}
/// only the variants the three functions construct
pub enum ReadOpError { InvalidOpId(String), InvalidKey, Other }
impl OpId {
//@ fn rust/automerge/src/op_set2/op_set/op_iter.rs | impl OpId | try_load
//@   ret r
//@   spec
        // C15: total for every (actor index, counter) pair a document's id columns can decode to
        ensures r matches Ok(o) ==> ctr matches Some(c) && o.0 == c,
//@ end
}
impl ObjId {
//@ fn rust/automerge/src/op_set2/op_set/op_iter.rs | impl ObjId | try_load
//@   ret r
//@   spec
        ensures true,
//@ end
}
impl ElemId {
//@ fn rust/automerge/src/op_set2/op_set/op_iter.rs | impl ElemId | try_load
//@   ret r
//@   spec
        ensures true,
//@ end
}

} // verus!
fn main() {}
