// U16 AutoCommit transaction discipline -- rust/automerge/src/autocommit.rs     (engine V)
//
// The REAL bodies of the AutoCommit methods that open, flush or bypass the lazily opened transaction are
// checked against a representation invariant with ghost state:
//   * `Automerge::version()`        -- abstract "state the cached TransactionArgs were computed against"
//                                      (actor table, op counter, heads).  Every document method that can change
//                                      any of those has NO postcondition about it (so it may change);
//   * `TransactionInner::based_on()`-- the version the open transaction's cached actor index / start op / deps
//                                      were computed against; `scope()` -- the heads it was scoped to;
//   * `PatchLog::pending()`         -- "a speculative actor may be recorded" (begin_transaction asserts none is).
// wf():  an open transaction is based on the CURRENT document version and scoped to the CURRENT isolation heads;
//        with no transaction open the patch log holds no speculative actor.
// Consequences used by the properties: C04 (start op / deps of the next change are computed against everything
// applied; an isolated transaction depends on exactly the isolation heads; flushing never leaves isolation),
// C30 (the cached actor index of an open transaction is never used after the actor table may have shifted),
// C37 (the `assert!` in PatchLog::begin_transaction and the `.unwrap()`s here cannot fire).
use vstd::prelude::*;
verus! {

// ================= assumed environment (trusted contracts of the code AutoCommit delegates to) =================
//@ item rust/automerge/src/types.rs | const HASH_SIZE
//@ item rust/automerge/src/types.rs | struct ChangeHash

pub assume_specification<T: Clone>[ <[T]>::to_vec ](s: &[T]) -> (r: Vec<T>) ensures r@ == s@;

#[verifier::external_body] pub struct ActorId { _p: () }
#[verifier::external_body] pub struct Change { _p: () }
#[verifier::external_body] pub struct Patch { _p: () }
#[verifier::external_body] pub struct ObjId { _p: () }
#[verifier::external_body] pub struct OpRange { _p: () }
#[verifier::external_body] pub struct AutomergeError { _p: () }
#[verifier::external_body] pub struct SaveOptions { _p: () }
#[verifier::external_body] pub struct ChangeGraph { _p: () }
impl Clone for ActorId { #[verifier::external_body] fn clone(&self) -> (r: Self) ensures r == *self { unimplemented!() } }
impl Clone for Patch { #[verifier::external_body] fn clone(&self) -> (r: Self) ensures r == *self { unimplemented!() } }
impl Clone for ObjId { #[verifier::external_body] fn clone(&self) -> (r: Self) ensures r == *self { unimplemented!() } }
impl Clone for OpRange { #[verifier::external_body] fn clone(&self) -> (r: Self) ensures r == *self { unimplemented!() } }
impl Clone for ChangeGraph { #[verifier::external_body] fn clone(&self) -> (r: Self) ensures r == *self { unimplemented!() } }
#[derive(Clone)]
pub struct OpSet { pub actors: Vec<ActorId> }
pub struct CommitOptions { pub message: Option<String>, pub time: Option<i64> }

/// abstract document version: everything TransactionArgs caches (actor index, seq, start op, deps) is a function of it
#[verifier::external_body] pub struct Version { _p: () }
#[verifier::external_body] pub struct ExId { _p: () }
#[verifier::external_body] pub struct HydrateValue { _p: () }
pub mod hydrate { pub use super::HydrateValue as Value; }

#[derive(Clone)]
pub struct Automerge { pub ops: OpSet, pub change_graph: ChangeGraph }
pub struct TransactionArgs { pub _p: () }
impl TransactionArgs {
    pub uninterp spec fn based_on(&self) -> Version;
    pub uninterp spec fn scope(&self) -> Option<Seq<ChangeHash>>;
}
#[verifier::external_body] pub struct TransactionInner { _p: () }
#[verifier::external_body] pub struct PatchLog { _p: () }

impl Automerge {
    pub uninterp spec fn version(&self) -> Version;
    pub uninterp spec fn spec_heads(&self) -> Seq<ChangeHash>;

    /// `clock_at`: None exactly when the heads are the current heads (an unscoped read), else the clock of those heads
    pub uninterp spec fn spec_clock_at(&self, h: Seq<ChangeHash>) -> Option<Clock>;
    #[verifier::external_body]
    pub fn clock_at(&self, heads: &[ChangeHash]) -> (r: Option<Clock>) ensures r == self.spec_clock_at(heads@) { unimplemented!() }
    /// what a scoped read of an object returns (abstract function of document, object and clock)
    pub uninterp spec fn spec_hydrate(&self, obj: ExId, clock: Option<Clock>) -> Result<HydrateValue, AutomergeError>;
    #[verifier::external_body]
    pub fn hydrate_obj(&self, obj: &ExId, clock: Option<Clock>) -> (r: Result<HydrateValue, AutomergeError>)
        ensures r == self.spec_hydrate(*obj, clock) { unimplemented!() }
    /// scoped reads (abstract functions of document, object and clock)
    pub uninterp spec fn spec_length(&self, obj: ExId, clock: Option<Clock>) -> usize;
    #[verifier::external_body]
    pub fn length_for(&self, obj: &ExId, clock: Option<Clock>) -> (r: usize) ensures r == self.spec_length(*obj, clock) { unimplemented!() }
    pub uninterp spec fn spec_text(&self, obj: ExId, clock: Option<Clock>) -> Result<String, AutomergeError>;
    #[verifier::external_body]
    pub fn text_for(&self, obj: &ExId, clock: Option<Clock>) -> (r: Result<String, AutomergeError>) ensures r == self.spec_text(*obj, clock) { unimplemented!() }
    #[verifier::external_body]
    pub fn ops(&self) -> (r: &OpSet) ensures *r == self.ops { unimplemented!() }
    #[verifier::external_body]
    pub fn get_heads(&self) -> (r: Vec<ChangeHash>) ensures r@ == self.spec_heads() { unimplemented!() }
    /// the cached arguments of the next transaction: computed against THIS version, scoped to `heads`
    #[verifier::external_body]
    pub fn transaction_args(&self, heads: Option<&[ChangeHash]>) -> (r: TransactionArgs)
        ensures r.based_on() == self.version(),
            r.scope() == (match heads { Some(h) => Some(h@), None => None::<Seq<ChangeHash>> }),
    { unimplemented!() }
    // ---- everything below may change the actor table / op counter / heads: NO postcondition about version()
    #[verifier::external_body]
    pub fn set_actor(&mut self, actor: ActorId) { unimplemented!() }
    #[verifier::external_body]
    pub fn remove_unused_actors(&mut self, b: bool) { unimplemented!() }
    #[verifier::external_body]
    pub fn load_incremental_log_patches(&mut self, data: &[u8], log: &mut PatchLog) -> (r: Result<usize, AutomergeError>)
        ensures final(log).pending() == old(log).pending() { unimplemented!() }
    #[verifier::external_body]
    pub fn apply_changes_log_patches<I: IntoIterator<Item = Change> + Clone>(&mut self, changes: I, log: &mut PatchLog) -> (r: Result<(), AutomergeError>)
        ensures final(log).pending() == old(log).pending() { unimplemented!() }
    #[verifier::external_body]
    pub fn apply_changes_batch_log_patches<I: IntoIterator<Item = Change> + Clone>(&mut self, changes: I, log: &mut PatchLog) -> (r: Result<(), AutomergeError>)
        ensures final(log).pending() == old(log).pending() { unimplemented!() }
    #[verifier::external_body]
    pub fn merge_and_log_patches(&mut self, other: &mut Automerge, log: &mut PatchLog) -> (r: Result<Vec<ChangeHash>, AutomergeError>)
        ensures final(log).pending() == old(log).pending(), final(other).version() == old(other).version() { unimplemented!() }
    #[verifier::external_body]
    pub fn save_with_options(&self, options: SaveOptions) -> (r: Vec<u8>) { unimplemented!() }
    #[verifier::external_body]
    pub fn save_after(&self, heads: &[ChangeHash]) -> (r: Vec<u8>) { unimplemented!() }
    // ---- read-only queries
    #[verifier::external_body]
    pub fn changes(&self) -> (r: &ChangeGraph) ensures *r == self.change_graph { unimplemented!() }
    #[verifier::external_body]
    pub fn fork(&self) -> (r: Automerge) { unimplemented!() }
    #[verifier::external_body]
    pub fn get_missing_deps(&self, heads: &[ChangeHash]) -> (r: Vec<ChangeHash>) { unimplemented!() }
    #[verifier::external_body]
    pub fn get_last_local_change(&self) -> (r: Option<Change>) { unimplemented!() }
    #[verifier::external_body]
    pub fn get_changes(&self, have_deps: &[ChangeHash]) -> (r: Vec<Change>) { unimplemented!() }
    #[verifier::external_body]
    pub fn get_change_by_hash(&self, hash: &ChangeHash) -> (r: Option<Change>) { unimplemented!() }
    #[verifier::external_body]
    pub fn get_changes_added(&self, other: &Automerge) -> (r: Vec<Change>) { unimplemented!() }
}
#[verifier::external_body] pub struct ClockRange { _p: () }
#[verifier::external_body] pub struct ObjMeta { _p: () }
impl ObjMeta { #[verifier::external_body] pub fn root() -> ObjMeta { unimplemented!() } }
pub struct DiffIter { pub _p: () }
impl DiffIter {
    #[verifier::external_body]
    pub fn log(doc: &Automerge, obj: ObjMeta, clock: ClockRange, log: &mut PatchLog, recursive: bool)
        ensures final(log).pending() == old(log).pending() { unimplemented!() }
}
impl Automerge {
    #[verifier::external_body]
    pub fn clock_range(&self, before: &[ChangeHash], after: &[ChangeHash]) -> (r: ClockRange) { unimplemented!() }
}
/// a vector clock (the scope of a read); opaque
#[verifier::external_body] pub struct Clock { _p: () }
impl Clone for Clock { #[verifier::external_body] fn clone(&self) -> (r: Self) ensures r == *self { unimplemented!() } }
/// the clock of a set of heads (abstract function of the change graph)
pub uninterp spec fn graph_clock(g: ChangeGraph, h: Seq<ChangeHash>) -> Clock;
impl ChangeGraph {
    #[verifier::external_body]
    pub fn clock_at(&self, heads: &[ChangeHash]) -> (r: Clock) ensures r == graph_clock(*self, heads@) { unimplemented!() }
    #[verifier::external_body]
    pub fn heads_are_current(&self, heads: &[ChangeHash]) -> (r: bool) { unimplemented!() }
    #[verifier::external_body]
    pub fn has_change(&self, hash: &ChangeHash) -> (r: bool) { unimplemented!() }
}

impl TransactionInner {
    pub uninterp spec fn based_on(&self) -> Version;
    pub uninterp spec fn scope(&self) -> Option<Seq<ChangeHash>>;
    /// what `commit` returns: the hash of the new change, or None when the transaction made no operations
    pub uninterp spec fn spec_commit(&self, doc: Automerge) -> Option<ChangeHash>;
    /// the clock an isolated transaction reads under (transaction/inner.rs `scope`)
    pub uninterp spec fn scope_clock(&self) -> Option<Clock>;
    #[verifier::external_body]
    pub fn get_scope(&self) -> (r: &Option<Clock>) ensures *r == self.scope_clock() { unimplemented!() }

    #[verifier::external_body]
    pub fn new(args: TransactionArgs) -> (r: TransactionInner)
        ensures r.based_on() == args.based_on(), r.scope() == args.scope() { unimplemented!() }
    /// REQUIRES that the document is still the one the cached arguments were computed against (C04 / C30)
    #[verifier::external_body]
    pub fn commit(self, doc: &mut Automerge, message: Option<String>, time: Option<i64>) -> (r: Option<ChangeHash>)
        requires self.based_on() == old(doc).version(),
        ensures r == self.spec_commit(*old(doc)) { unimplemented!() }
    #[verifier::external_body]
    pub fn rollback(self, doc: &mut Automerge) -> (r: usize)
        requires self.based_on() == old(doc).version() { unimplemented!() }
    #[verifier::external_body]
    pub fn empty(doc: &mut Automerge, args: TransactionArgs, message: Option<String>, time: Option<i64>) -> (r: ChangeHash)
        requires args.based_on() == old(doc).version() { unimplemented!() }
}
impl Clone for TransactionInner { #[verifier::external_body] fn clone(&self) -> (r: Self) ensures r == *self { unimplemented!() } }

#[verifier::external_body] pub struct PatchLogMismatch { _p: () }
impl core::fmt::Debug for PatchLogMismatch { #[verifier::external_body] fn fmt(&self, f: &mut core::fmt::Formatter<'_>) -> core::fmt::Result { unimplemented!() } }
impl PatchLog {
    /// "a speculative actor may be recorded" (patch_log.rs: `speculative_actor.is_some()`)
    pub uninterp spec fn pending(&self) -> bool;
    #[verifier::external_body]
    pub fn null() -> (r: PatchLog) ensures !r.pending() { unimplemented!() }
    #[verifier::external_body]
    pub fn inactive() -> (r: PatchLog) ensures !r.pending() { unimplemented!() }
    /// patch_log.rs `assert!(self.speculative_actor.is_none(), ..)`: REQUIRES none pending (C37).
    /// ASSUMED: the AutoCommit's own log always belongs to its document, so the result is Ok.
    #[verifier::external_body]
    pub fn begin_transaction(&mut self, doc: &Automerge, args: &TransactionArgs) -> (r: Result<(), PatchLogMismatch>)
        requires !old(self).pending(),
        ensures r is Ok { unimplemented!() }
    #[verifier::external_body]
    pub fn finish_transaction(&mut self, doc_actors: &[ActorId])
        ensures !final(self).pending() { unimplemented!() }
    #[verifier::external_body]
    pub fn set_active(&mut self, b: bool) ensures final(self).pending() == old(self).pending() { unimplemented!() }
    #[verifier::external_body]
    pub fn truncate(&mut self) ensures final(self).pending() == old(self).pending() { unimplemented!() }
    #[verifier::external_body]
    pub fn finish_current_view(&mut self, doc: &Automerge, heads: &[ChangeHash]) ensures final(self).pending() == old(self).pending() { unimplemented!() }
    #[verifier::external_body]
    pub fn branch(&self) -> (r: PatchLog) ensures !r.pending() { unimplemented!() }
    #[verifier::external_body]
    pub fn merge(&mut self, other: PatchLog) ensures final(self).pending() == old(self).pending() { unimplemented!() }
}
impl Clone for PatchLog { #[verifier::external_body] fn clone(&self) -> (r: Self) ensures r == *self { unimplemented!() } }

/// trusted wrapper for `Option<Vec<T>>::as_deref()` (Deref-generic; no vstd specification): body IS that expression
#[verifier::external_body]
pub fn vf_as_deref(o: &Option<Vec<ChangeHash>>) -> (r: Option<&[ChangeHash]>)
    ensures (match (*o, r) { (Some(v), Some(s)) => s@ == v@, (None, None) => true, _ => false })
{ o.as_deref() }

pub open spec fn iso_view(o: Option<Vec<ChangeHash>>) -> Option<Seq<ChangeHash>> {
    match o { Some(v) => Some(v@), None => None }
}

// ================= the real code =================
//@ item rust/automerge/src/autocommit.rs | struct AutoCommit

impl AutoCommit {
    /// `Transactable::pending_ops` of AutoCommit (trait-impl method; ASSUMED): the ops of the open transaction, 0 if none
    #[verifier::external_body]
    pub fn pending_ops(&self) -> (r: usize) ensures self.transaction is None ==> r == 0 { unimplemented!() }
    /// representation invariant (see header)
    pub open spec fn wf(&self) -> bool {
        &&& self.transaction matches Some((_, tx)) ==> tx.based_on() == self.doc.version() && tx.scope() == iso_view(self.isolation)
        &&& self.transaction is None ==> !self.patch_log.pending()
    }

//@ fn rust/automerge/src/autocommit.rs | impl AutoCommit | ensure_transaction_open
//@   subst /self\.isolation\.as_deref\(\)/ => vf_as_deref(&self.isolation)
//@   spec
        requires old(self).wf(),
        ensures final(self).wf(), final(self).transaction is Some,
            final(self).isolation == old(self).isolation, final(self).doc == old(self).doc,
            old(self).transaction is Some ==> *final(self) == *old(self),
//@ end

//@ fn rust/automerge/src/autocommit.rs | impl AutoCommit | ensure_transaction_closed
//@   subst /hash\.map\(\|h\| vec!\[h\]\)/ => hash.map(|h: ChangeHash| -> (v: Vec<ChangeHash>) ensures v@ =~= seq![h] { vec![h] })
//@   spec
        requires old(self).wf(),
        ensures final(self).wf(), final(self).transaction is None,
            old(self).transaction is None ==> *final(self) == *old(self),
            // C04: flushing the pending transaction never leaves (or enters) isolation ...
            final(self).isolation is Some <==> old(self).isolation is Some,
            // ... the isolated view moves to the change just committed, and only if one was made
            (old(self).isolation is Some && old(self).transaction is Some)
                ==> (match (old(self).transaction->0).1.spec_commit(old(self).doc) {
                        Some(h) => iso_view(final(self).isolation) == Some(seq![h]),
                        None => final(self).isolation == old(self).isolation }),
//@ end

//@ fn rust/automerge/src/autocommit.rs | impl AutoCommit | commit_with
//@   subst /hash\.map\(\|h\| vec!\[h\]\)/ => hash.map(|h: ChangeHash| -> (v: Vec<ChangeHash>) ensures v@ =~= seq![h] { vec![h] })
//@   ret r
//@   spec
        requires old(self).wf(),
        ensures final(self).wf(), final(self).transaction is None,
            final(self).isolation is Some <==> old(self).isolation is Some,
            (old(self).isolation is Some && r is Some) ==> iso_view(final(self).isolation) == Some(seq![r->0]),
            (old(self).isolation is Some && r is None) ==> final(self).isolation == old(self).isolation,
//@ end

//@ fn rust/automerge/src/autocommit.rs | impl AutoCommit | empty_change
//@   spec
        requires old(self).wf(),
        ensures final(self).wf(), final(self).transaction is None,
//@ end

//@ fn rust/automerge/src/autocommit.rs | impl AutoCommit | get_heads
//@   ret r
//@   spec
        requires old(self).wf(),
        ensures final(self).wf(), final(self).transaction is None,
            final(self).isolation is Some <==> old(self).isolation is Some,
            // C04: while isolated the heads reported are the isolation heads
            final(self).isolation matches Some(i) ==> r@ == i@,
            final(self).isolation is None ==> r@ == final(self).doc.spec_heads(),
            old(self).transaction is None ==> *final(self) == *old(self),
//@ end

//@ fn rust/automerge/src/autocommit.rs | impl AutoCommit | set_actor
//@   ret r
//@   spec
        requires old(self).wf(),
        // the returned `&mut Self` IS self: its value at return satisfies the invariant with the transaction flushed
        ensures (*r).wf(), (*r).transaction is None, (*r).isolation is Some <==> old(self).isolation is Some,
//@ end

//@ fn rust/automerge/src/autocommit.rs | impl AutoCommit | load_incremental
//@   spec
        requires old(self).wf(),
        ensures final(self).wf(), final(self).transaction is None,
            final(self).isolation is Some <==> old(self).isolation is Some,
//@ end

//@ fn rust/automerge/src/autocommit.rs | impl AutoCommit | apply_changes
//@   spec
        requires old(self).wf(),
        ensures final(self).wf(), final(self).transaction is None,
            final(self).isolation is Some <==> old(self).isolation is Some,
//@ end

//@ fn rust/automerge/src/autocommit.rs | impl AutoCommit | apply_changes_batch
//@   spec
        requires old(self).wf(),
        ensures final(self).wf(), final(self).transaction is None,
            final(self).isolation is Some <==> old(self).isolation is Some,
//@ end

//@ fn rust/automerge/src/autocommit.rs | impl AutoCommit | merge
//@   spec
        requires old(self).wf(), old(other).wf(),
        ensures final(self).wf(), final(other).wf(), final(self).transaction is None, final(other).transaction is None,
            final(self).isolation is Some <==> old(self).isolation is Some,
//@ end

//@ fn rust/automerge/src/autocommit.rs | impl AutoCommit | save_with_options
//@   spec
        requires old(self).wf(),
        ensures final(self).wf(), final(self).transaction is None,
            final(self).isolation is Some <==> old(self).isolation is Some,
//@ end

//@ fn rust/automerge/src/autocommit.rs | impl AutoCommit | save_incremental
//@   spec
        requires old(self).wf(),
        ensures final(self).wf(), final(self).transaction is None,
//@ end

//@ fn rust/automerge/src/autocommit.rs | impl AutoCommit | save_after
//@   spec
        requires old(self).wf(),
        ensures final(self).wf(), final(self).transaction is None,
            final(self).isolation == old(self).isolation || old(self).transaction is Some,
//@ end

//@ fn rust/automerge/src/autocommit.rs | impl AutoCommit | get_missing_deps
//@   spec
        requires old(self).wf(),
        ensures final(self).wf(), final(self).transaction is None,
            final(self).isolation == old(self).isolation || old(self).transaction is Some,
//@ end

//@ fn rust/automerge/src/autocommit.rs | impl AutoCommit | get_last_local_change
//@   spec
        requires old(self).wf(),
        ensures final(self).wf(), final(self).transaction is None,
            final(self).isolation == old(self).isolation || old(self).transaction is Some,
//@ end

//@ fn rust/automerge/src/autocommit.rs | impl AutoCommit | get_changes
//@   spec
        requires old(self).wf(),
        ensures final(self).wf(), final(self).transaction is None,
            final(self).isolation == old(self).isolation || old(self).transaction is Some,
//@ end

//@ fn rust/automerge/src/autocommit.rs | impl AutoCommit | get_change_by_hash
//@   spec
        requires old(self).wf(),
        ensures final(self).wf(), final(self).transaction is None,
            final(self).isolation == old(self).isolation || old(self).transaction is Some,
//@ end

//@ fn rust/automerge/src/autocommit.rs | impl AutoCommit | reset_diff_cursor
//@   spec
        requires old(self).wf(),
        ensures final(self).wf(), final(self).transaction is None,
            final(self).isolation == old(self).isolation || old(self).transaction is Some,
//@ end

//@ fn rust/automerge/src/autocommit.rs | impl AutoCommit | update_diff_cursor
//@   spec
        requires old(self).wf(),
        ensures final(self).wf(), final(self).transaction is None,
            final(self).isolation == old(self).isolation || old(self).transaction is Some,
//@ end

//@ fn rust/automerge/src/autocommit.rs | impl AutoCommit | get_changes_added
//@   spec
        requires old(self).wf(), old(other).wf(),
        ensures final(self).wf(), final(self).transaction is None, final(other).wf(), final(other).transaction is None,
//@ end

//@ fn rust/automerge/src/autocommit.rs | impl AutoCommit | fork
//@   ret r
//@   spec
        requires old(self).wf(),
        // C30: a fork never inherits an open transaction (whose cached actor index belongs to the parent)
        ensures final(self).wf(), final(self).transaction is None, r.transaction is None, r.isolation is None, r.wf(),
//@ end

// `rollback` is NOT under contract: its closure `|(_, tx)| { .. &mut self.doc .. }` (tuple pattern parameter,
// captured `&mut`) is outside what this Verus accepts.

//@ fn rust/automerge/src/autocommit.rs | impl AutoCommit | patch_to
//@   spec
        requires old(self).wf(),
        ensures final(self).wf(), final(self).transaction is None,
            final(self).isolation is Some <==> old(self).isolation is Some,
            old(self).transaction is None ==> (final(self).isolation == old(self).isolation && final(self).doc == old(self).doc),
//@ end

    /// C29: the clock every read of this AutoCommit is scoped to -- an explicit `heads` argument wins (and with a transaction
    /// in flight the read is ALWAYS clock-scoped); otherwise, while isolated, the open transaction's scope or the isolation
    /// heads; otherwise unscoped
    pub open spec fn scope_of(&self, heads: Option<&[ChangeHash]>) -> Option<Clock> {
        match heads {
            Some(h) => if self.transaction is None { self.doc.spec_clock_at(h@) } else { Some(graph_clock(self.doc.change_graph, h@)) },
            None => if self.isolation is Some {
                if self.transaction is Some { (self.transaction->0).1.scope_clock() } else { self.doc.spec_clock_at((self.isolation->0)@) }
            } else { None },
        }
    }
//@ fn rust/automerge/src/autocommit.rs | impl AutoCommit | get_scope
//@   ret r
//@   spec
        ensures r == self.scope_of(heads),
//@ end

//@ fn rust/automerge/src/autocommit.rs | impl ReadDoc for AutoCommit | hydrate
//@   ret r
//@   subst /<O: AsRef<ExId>>/ => <>
//@   subst /obj: O,/ => obj: &ExId,
//@   subst /obj\.as_ref\(\)/ => obj
//@   spec
        // C29 (D30 lived here): hydrate is a read like any other -- it goes through the scope
        ensures r == self.doc.spec_hydrate(*obj, self.scope_of(heads)),
//@ end

//@ fn rust/automerge/src/autocommit.rs | impl ReadDoc for AutoCommit | length
//@   ret r
//@   subst /<O: AsRef<ExId>>/ => <>
//@   subst /obj: O/ => obj: &ExId
//@   subst /obj\.as_ref\(\)/ => obj
//@   spec
        ensures r == self.doc.spec_length(*obj, self.scope_of(None::<&[ChangeHash]>)),
//@ end

//@ fn rust/automerge/src/autocommit.rs | impl ReadDoc for AutoCommit | length_at
//@   ret r
//@   subst /<O: AsRef<ExId>>/ => <>
//@   subst /obj: O/ => obj: &ExId
//@   subst /obj\.as_ref\(\)/ => obj
//@   spec
        ensures r == self.doc.spec_length(*obj, self.scope_of(Some(heads))),
//@ end

//@ fn rust/automerge/src/autocommit.rs | impl ReadDoc for AutoCommit | text
//@   ret r
//@   subst /<O: AsRef<ExId>>/ => <>
//@   subst /obj: O/ => obj: &ExId
//@   subst /obj\.as_ref\(\)/ => obj
//@   spec
        ensures r == self.doc.spec_text(*obj, self.scope_of(None::<&[ChangeHash]>)),
//@ end

//@ fn rust/automerge/src/autocommit.rs | impl ReadDoc for AutoCommit | text_at
//@   ret r
//@   subst /<O: AsRef<ExId>>/ => <>
//@   subst /obj: O/ => obj: &ExId
//@   subst /obj\.as_ref\(\)/ => obj
//@   spec
        ensures r == self.doc.spec_text(*obj, self.scope_of(Some(heads))),
//@ end

//@ fn rust/automerge/src/autocommit.rs | impl AutoCommit | isolate
//@   spec
        requires old(self).wf(),
        ensures final(self).wf(), final(self).transaction is None,
            // C04: after isolate(h) the document IS isolated at exactly h -- whatever h is
            iso_view(final(self).isolation) == Some(heads@),
//@ end

//@ fn rust/automerge/src/autocommit.rs | impl AutoCommit | integrate
//@   spec
        requires old(self).wf(),
        ensures final(self).wf(), final(self).transaction is None,
            final(self).isolation is None,
//@ end
}

} // verus!
fn main() {}
