// U18 actor table -- automerge.rs (insert_actor, put_actor, put_actor_ref), op_set2/op_set.rs (OpSet::insert_actor,
// lookup_actor)                                                                         (engine V)
//
// C30: every actor index stored anywhere in the document (op columns, change graph, the document's own cached
// index) denotes the SAME actor id after an actor is inserted into the sorted table as before.
// Ghost views: `OpSet::spec_ids()` / `ChangeGraph::spec_ids()` -- the actor indices stored in the op columns /
// in the change graph (abstract sequences); the column / graph rewrites are ASSUMED to shift exactly those
// (their bodies are closures over hexane columns / `for x in &mut v` loops, outside this Verus).
use vstd::prelude::*;
use std::cmp::Ordering;
verus! {

// ---------------------------------------------------------------- assumed environment (trusted)
#[verifier::external_body]
pub struct ActorId { _p: () }
impl vstd::std_specs::cmp::PartialEqSpecImpl for ActorId {
    open spec fn obeys_eq_spec() -> bool { true }
    open spec fn eq_spec(&self, o: &Self) -> bool { *self == *o }
}
impl PartialEq for ActorId { #[verifier::external_body] fn eq(&self, o: &Self) -> (r: bool) ensures r == (*self == *o) { unimplemented!() } }
impl Clone for ActorId { #[verifier::external_body] fn clone(&self) -> (r: Self) ensures r == *self { unimplemented!() } }

/// the total order `Ord for ActorId` implements (abstract; only its order laws are used)
pub uninterp spec fn actor_lt(a: ActorId, b: ActorId) -> bool;
#[verifier::external_body]
pub proof fn axiom_actor_order()
    ensures forall|a: ActorId| !actor_lt(a, a),
        forall|a: ActorId, b: ActorId, c: ActorId| actor_lt(a, b) && actor_lt(b, c) ==> #[trigger] actor_lt(a, c) || !#[trigger] actor_lt(a, b) || !#[trigger] actor_lt(b, c),
        forall|a: ActorId, b: ActorId| #[trigger] actor_lt(a, b) || a == b || actor_lt(b, a),
{}
pub open spec fn sorted_strict(s: Seq<ActorId>) -> bool {
    forall|i: int, j: int| 0 <= i < j < s.len() ==> actor_lt(s[i], s[j])
}

/// trusted wrapper for `<[ActorId]>::binary_search(x)` (std contract on a sorted, duplicate-free slice; `Ord`-generic,
/// no vstd specification); it stands for exactly that expression
#[verifier::external_body]
pub fn vf_binary_search(v: &Vec<ActorId>, x: &ActorId) -> (r: Result<usize, usize>)
    requires sorted_strict(v@),
    ensures
        r matches Ok(i) ==> i < v.len() && v@[i as int] == *x,
        r matches Err(i) ==> i <= v.len()
            && (forall|k: int| 0 <= k < i ==> actor_lt(v@[k], *x))
            && (forall|k: int| i <= k < v.len() ==> actor_lt(*x, v@[k])),
{ unimplemented!() }

#[verifier::external_body] pub struct Columns { _p: () }
impl Columns {
    /// the actor indices stored in the op columns, object index and mark index (abstract)
    pub uninterp spec fn spec_ids(&self) -> Seq<int>;
}
pub struct OpSet { pub actors: Vec<ActorId>, pub cols: Columns }
#[verifier::external_body] pub struct ChangeGraph { _p: () }

pub open spec fn shift_idx(a: int, idx: int) -> int { if a >= idx { a + 1 } else { a } }
pub open spec fn unshift_idx(a: int, idx: int) -> int { if a > idx { a - 1 } else { a } }

impl OpSet {
    pub open spec fn spec_ids(&self) -> Seq<int> { self.cols.spec_ids() }
    /// ASSUMED: the column rewrite bumps exactly the stored indices >= idx, and touches nothing else
    #[verifier::external_body]
    pub fn rewrite_with_new_actor(&mut self, idx: usize)
        ensures final(self).actors == old(self).actors,
            final(self).spec_ids() == old(self).spec_ids().map_values(|a: int| shift_idx(a, idx as int)),
    { unimplemented!() }
    /// ASSUMED contract of OpSet::remove_actor (body: `actors.remove(idx)` + column / object-index rewrites through
    /// closures): requires that no stored index names `idx` (the real column rewrite panics otherwise), removes the
    /// table entry and lowers exactly the stored indices above it
    #[verifier::external_body]
    pub fn remove_actor(&mut self, idx: usize)
        requires idx < old(self).actors.len(),
            forall|k: int| 0 <= k < old(self).spec_ids().len() ==> old(self).spec_ids()[k] != idx,
        ensures final(self).actors@ == old(self).actors@.remove(idx as int),
            final(self).spec_ids() == old(self).spec_ids().map_values(|a: int| unshift_idx(a, idx as int)),
    { unimplemented!() }

    pub open spec fn wf(&self) -> bool {
        &&& sorted_strict(self.actors@)
        &&& forall|k: int| 0 <= k < self.spec_ids().len() ==> 0 <= #[trigger] self.spec_ids()[k] < self.actors.len()
    }

//@ fn rust/automerge/src/op_set2/op_set.rs | impl OpSet | lookup_actor
//@   ret r
//@   subst /self\.actors\.binary_search\(actor\)/ => vf_binary_search(&self.actors, actor)
//@   spec
        requires sorted_strict(self.actors@),
        ensures r matches Some(i) ==> i < self.actors.len() && self.actors[i as int] == *actor,
                r is None ==> forall|i: int| 0 <= i < self.actors.len() ==> self.actors[i] != *actor,
//@   before /binary_search/
        proof { axiom_actor_order(); }
//@ end

//@ fn rust/automerge/src/op_set2/op_set.rs | impl OpSet | insert_actor
//@   spec
        requires old(self).wf(), idx <= old(self).actors.len(),
            (forall|k: int| 0 <= k < idx ==> actor_lt(old(self).actors@[k], actor)),
            (forall|k: int| idx <= k < old(self).actors.len() ==> actor_lt(actor, old(self).actors@[k])),
        ensures final(self).wf(),
            final(self).actors@ == old(self).actors@.insert(idx as int, actor),
            // C30: every stored index denotes the same actor as before
            final(self).spec_ids().len() == old(self).spec_ids().len(),
            forall|k: int| 0 <= k < old(self).spec_ids().len() ==>
                final(self).actors@[#[trigger] final(self).spec_ids()[k]] == old(self).actors@[old(self).spec_ids()[k]],
//@   before /self\.actors\.insert\(idx, actor\)/
        proof {
            let ids0 = old(self).spec_ids();
            let ids1 = self.spec_ids();
            let a0 = old(self).actors@;
            let a1 = a0.insert(idx as int, actor);
            assert(self.actors@ == a0);
            assert(ids1.len() == ids0.len());
            assert forall|k: int| 0 <= k < ids0.len() implies 0 <= #[trigger] ids1[k] < a1.len() && a1[ids1[k]] == a0[ids0[k]] by {
                assert(0 <= ids0[k] < a0.len());
                if a0.len() != idx { assert(ids1[k] == shift_idx(ids0[k], idx as int)); } else { assert(ids1[k] == ids0[k]); }
            }
            assert forall|i: int, j: int| 0 <= i < j < a1.len() implies actor_lt(a1[i], a1[j]) by {
                let i0 = if i < idx { i } else { i - 1 };
                let j0 = if j < idx { j } else { j - 1 };
                if i != idx && j != idx { assert(actor_lt(a0[i0], a0[j0])); }
            }
        }
//@ end
}

impl ChangeGraph {
    /// the actor indices stored in the change graph (per-change actor, clocks, seq index) (abstract)
    pub uninterp spec fn spec_ids(&self) -> Seq<int>;
    /// number of rows of the per-actor seq index
    pub uninterp spec fn spec_num_actors(&self) -> int;
    /// ASSUMED contract of ChangeGraph::insert_actor (body: `for x in &mut self.actors`, clock rewrites)
    #[verifier::external_body]
    pub fn insert_actor(&mut self, idx: usize)
        requires idx <= old(self).spec_num_actors(),
        ensures final(self).spec_num_actors() == old(self).spec_num_actors() + 1,
            final(self).spec_ids() == old(self).spec_ids().map_values(|a: int| shift_idx(a, idx as int)),
    { unimplemented!() }
    /// ASSUMED contract of ChangeGraph::remove_actor (asserts the actor's seq index is empty)
    #[verifier::external_body]
    pub fn remove_actor(&mut self, idx: usize)
        requires idx < old(self).spec_num_actors(),
            forall|k: int| 0 <= k < old(self).spec_ids().len() ==> old(self).spec_ids()[k] != idx,
        ensures final(self).spec_num_actors() == old(self).spec_num_actors() - 1,
            final(self).spec_ids() == old(self).spec_ids().map_values(|a: int| unshift_idx(a, idx as int)),
    { unimplemented!() }
}

//@ item rust/automerge/src/automerge.rs | enum Actor
impl Actor {
//@ fn rust/automerge/src/automerge.rs | impl Actor | remove_actor
//@   spec
        requires index < actors.len(),
        ensures
            *old(self) matches Actor::Cached(i) ==> (
                (i == index ==> *final(self) == Actor::Unused(actors[index as int]))
                && (i > index ==> *final(self) == Actor::Cached((i - 1) as usize))
                && (i < index ==> *final(self) == Actor::Cached(i))),
            *old(self) is Unused ==> *final(self) == *old(self),
//@ end

//@ fn rust/automerge/src/automerge.rs | impl Actor | rewrite_with_new_actor
//@   spec
        requires *old(self) matches Actor::Cached(i) ==> i < usize::MAX,
        ensures
            *old(self) matches Actor::Cached(i) ==> *final(self) == Actor::Cached(if i >= index { (i + 1) as usize } else { i }),
            *old(self) is Unused ==> *final(self) == *old(self),
//@ end
}

pub struct Automerge { pub change_graph: ChangeGraph, pub ops: OpSet, pub actor: Actor }

impl Automerge {
    /// the actor id the document writes under
    pub open spec fn my_actor(&self) -> ActorId {
        match self.actor { Actor::Cached(i) => self.ops.actors@[i as int], Actor::Unused(a) => a }
    }
    pub open spec fn wf(&self) -> bool {
        &&& self.ops.wf()
        &&& self.change_graph.spec_num_actors() == self.ops.actors.len()
        &&& forall|k: int| 0 <= k < self.change_graph.spec_ids().len() ==> 0 <= #[trigger] self.change_graph.spec_ids()[k] < self.ops.actors.len()
        &&& self.actor matches Actor::Cached(i) ==> i < self.ops.actors.len()
    }
    /// C30 for one insertion: table grew by exactly `actor` at `r`; every stored index -- op columns, change graph,
    /// the document's own -- denotes the same actor id as before
    pub open spec fn same_actors(old_: Automerge, new_: Automerge) -> bool {
        &&& new_.my_actor() == old_.my_actor()
        &&& new_.ops.spec_ids().len() == old_.ops.spec_ids().len()
        &&& forall|k: int| 0 <= k < old_.ops.spec_ids().len() ==>
                new_.ops.actors@[#[trigger] new_.ops.spec_ids()[k]] == old_.ops.actors@[old_.ops.spec_ids()[k]]
        &&& new_.change_graph.spec_ids().len() == old_.change_graph.spec_ids().len()
        &&& forall|k: int| 0 <= k < old_.change_graph.spec_ids().len() ==>
                new_.ops.actors@[#[trigger] new_.change_graph.spec_ids()[k]] == old_.ops.actors@[old_.change_graph.spec_ids()[k]]
    }

//@ fn rust/automerge/src/automerge.rs | impl Automerge | insert_actor
//@   ret r
//@   spec
        requires old(self).wf(), index <= old(self).ops.actors.len(), old(self).ops.actors.len() < usize::MAX,
            (forall|k: int| 0 <= k < index ==> actor_lt(old(self).ops.actors@[k], actor)),
            (forall|k: int| index <= k < old(self).ops.actors.len() ==> actor_lt(actor, old(self).ops.actors@[k])),
        ensures final(self).wf(), r == index,
            final(self).ops.actors@ == old(self).ops.actors@.insert(index as int, actor),
            Self::same_actors(*old(self), *final(self)),
//@ end

//@ fn rust/automerge/src/automerge.rs | impl Automerge | remove_actor
//@   spec
        // `actor` is unused: no op and no change names it (what remove_unused_actors / an empty first transaction establish)
        requires old(self).wf(), actor < old(self).ops.actors.len(),
            forall|k: int| 0 <= k < old(self).ops.spec_ids().len() ==> old(self).ops.spec_ids()[k] != actor,
            forall|k: int| 0 <= k < old(self).change_graph.spec_ids().len() ==> old(self).change_graph.spec_ids()[k] != actor,
        ensures final(self).wf(),
            final(self).ops.actors@ == old(self).ops.actors@.remove(actor as int),
            // C30: every remaining stored index, and the document's own actor, denote the same actor id as before
            Self::same_actors(*old(self), *final(self)),
//@ end

//@ fn rust/automerge/src/automerge.rs | impl Automerge | put_actor
//@   ret r
//@   subst /self\.ops\.actors\.binary_search\(&actor\)/ => vf_binary_search(&self.ops.actors, &actor)
//@   spec
        requires old(self).wf(), old(self).ops.actors.len() < usize::MAX,
        ensures final(self).wf(), r < final(self).ops.actors.len(), final(self).ops.actors@[r as int] == actor,
            Self::same_actors(*old(self), *final(self)),
            // an actor already in the table is found, nothing moves
            old(self).ops.actors@.contains(actor) ==> *final(self) == *old(self),
//@   before /match/
        proof { axiom_actor_order(); }
//@ end

//@ fn rust/automerge/src/automerge.rs | impl Automerge | get_or_create_actor_index
//@   ret r
//@   spec
        requires old(self).wf(), old(self).ops.actors.len() < usize::MAX,
        ensures final(self).wf(), final(self).actor == Actor::Cached(r), r < final(self).ops.actors.len(),
            // C30: the document keeps writing under the SAME actor id, now through a cached table index
            Self::same_actors(*old(self), *final(self)),
            old(self).actor is Cached ==> *final(self) == *old(self),
//@ end

//@ fn rust/automerge/src/automerge.rs | impl Automerge | get_actor_index
//@   ret r
//@   spec
        ensures self.actor matches Actor::Cached(i) ==> r == Some(i), self.actor is Unused ==> r is None,
//@ end

//@ fn rust/automerge/src/automerge.rs | impl Automerge | put_actor_ref
//@   ret r
//@   subst /self\.ops\.actors\.binary_search\(actor\)/ => vf_binary_search(&self.ops.actors, actor)
//@   spec
        requires old(self).wf(), old(self).ops.actors.len() < usize::MAX,
        ensures final(self).wf(), r < final(self).ops.actors.len(), final(self).ops.actors@[r as int] == *actor,
            Self::same_actors(*old(self), *final(self)),
            old(self).ops.actors@.contains(*actor) ==> *final(self) == *old(self),
//@   before /match/
        proof { axiom_actor_order(); }
//@ end
}

} // verus!
fn main() {}
