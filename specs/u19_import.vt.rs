// U19 string object ids -- automerge.rs::import_obj ("<counter>@<hex actor>" | "_root"), OpSet::get_actor   (engine V)
//
// C15 / C37: `import_obj` is total on EVERY &str -- no `unwrap` on a fallible conversion, every string slice on a
// char boundary, the actor-table index in range (D9 was the `hex::decode(..).unwrap()` here).
// `str` is opaque to this Verus: the five string primitives the function uses are trusted wrappers with the
// std contracts that matter (listed below); the control flow, the `?` error paths, the slice arithmetic and the
// table indexing are the real text.
use vstd::prelude::*;
verus! {

// ---------------------------------------------------------------- assumed environment (trusted)
#[verifier::external_body]
pub struct ActorId { _p: () }
impl Clone for ActorId { #[verifier::external_body] fn clone(&self) -> (r: Self) ensures r == *self { unimplemented!() } }
pub uninterp spec fn actor_of_bytes(b: Seq<u8>) -> ActorId;
impl vstd::std_specs::convert::FromSpecImpl<Vec<u8>> for ActorId {
    open spec fn obeys_from_spec() -> bool { true }
    open spec fn from_spec(v: Vec<u8>) -> Self { actor_of_bytes(v@) }
}
impl From<Vec<u8>> for ActorId { #[verifier::external_body] fn from(v: Vec<u8>) -> (r: Self) ensures r == actor_of_bytes(v@) { unimplemented!() } }

//@ item rust/automerge/src/exid.rs | enum ExId
pub enum AutomergeError { InvalidObjIdFormat(String), InvalidObjId(String), Other }

/// byte offset `i` of `s` is a char boundary (std `str::is_char_boundary`)
pub uninterp spec fn boundary(s: &str, i: int) -> bool;
pub uninterp spec fn str_len(s: &str) -> int;

/// `a == b` on &str
#[verifier::external_body]
pub fn vf_str_eq(a: &str, b: &str) -> (r: bool) { unimplemented!() }
/// `s.find(c)` for an ASCII char: the byte offset of a 1-byte char, so both it and the next offset are boundaries
#[verifier::external_body]
pub fn vf_find(s: &str, c: char) -> (r: Option<usize>)
    requires (c as u32) < 128,
    ensures r matches Some(n) ==> n < str_len(s) && boundary(s, n as int) && boundary(s, n + 1),
        str_len(s) <= usize::MAX,
{ unimplemented!() }
/// `&s[a..b]`: panics unless a <= b <= len and both are char boundaries
#[verifier::external_body]
pub fn vf_str_range<'a>(s: &'a str, a: usize, b: usize) -> (r: &'a str)
    requires a <= b <= str_len(s), boundary(s, a as int), boundary(s, b as int),
{ unimplemented!() }
/// `&s[a..]`
#[verifier::external_body]
pub fn vf_str_from<'a>(s: &'a str, a: usize) -> (r: &'a str)
    requires a <= str_len(s), boundary(s, a as int),
{ unimplemented!() }
pub proof fn axiom_boundary_zero(s: &str) ensures boundary(s, 0) { admit(); }
#[verifier::external_body] pub struct ParseIntError { _p: () }
impl core::fmt::Debug for ParseIntError { #[verifier::external_body] fn fmt(&self, f: &mut core::fmt::Formatter<'_>) -> core::fmt::Result { unimplemented!() } }
/// `<str>::parse::<u64>()`
#[verifier::external_body]
pub fn vf_parse_u64(s: &str) -> (r: Result<u64, ParseIntError>) { unimplemented!() }
/// `s.to_owned()`
#[verifier::external_body]
pub fn vf_owned(s: &str) -> (r: String) { unimplemented!() }
pub mod hex {
    use vstd::prelude::*;
    verus!{
    #[verifier::external_body] pub struct FromHexError { _p: () }
    impl core::fmt::Debug for FromHexError { #[verifier::external_body] fn fmt(&self, f: &mut core::fmt::Formatter<'_>) -> core::fmt::Result { unimplemented!() } }
    /// hex::decode: fallible (odd length, non-hex digit) -- no contract beyond its type
    #[verifier::external_body]
    pub fn decode(s: &str) -> (r: Result<Vec<u8>, FromHexError>) { unimplemented!() }
    }
}

pub struct OpSet { pub actors: Vec<ActorId> }
pub struct Automerge { pub ops: OpSet }
impl OpSet {
    /// contract of `lookup_actor`, proved in U18 against the std binary_search contract
    #[verifier::external_body]
    pub fn lookup_actor(&self, actor: &ActorId) -> (r: Option<usize>)
        ensures r matches Some(i) ==> i < self.actors.len() && self.actors[i as int] == *actor,
                r is None ==> forall|i: int| 0 <= i < self.actors.len() ==> self.actors[i] != *actor,
    { unimplemented!() }

//@ fn rust/automerge/src/op_set2/op_set.rs | impl OpSet | get_actor
//@   ret r
//@   spec
        // the real body indexes the table: this precondition is what every caller must establish
        requires idx < self.actors.len(),
        ensures *r == self.actors[idx as int],
//@ end
}

impl Automerge {
//@ fn rust/automerge/src/automerge.rs | impl Automerge | import_obj
//@   ret r
//@   subst /s == "_root"/ => vf_str_eq(s, "_root")
//@   subst /s\s*\.find\('@'\)/ => vf_find(s, '@')
//@   subst /\bs\[([^\[\]]*?)\.\.([^\[\]]+?)\]\s*\.parse\(\)/ => vf_parse_u64(vf_str_range(s, \1, \2))
//@   subst /&s\[([^\[\]]+?)\.\.\]/ => vf_str_from(s, \1)
//@   subst /s\.to_owned\(\)/ => vf_owned(s)
//@   spec
        // total on every &str (no requires); an id that resolves names an actor of THIS document's table
        ensures r matches Ok(ExId::Id(c, a, i)) ==> i < self.ops.actors.len() && self.ops.actors[i as int] == a,
//@   before /let n = /
        proof { axiom_boundary_zero(s); }
//@ end
}

} // verus!
fn main() {}
