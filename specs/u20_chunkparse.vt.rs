#![feature(allocator_api)]
// U20 chunk dispatch -- rust/automerge/src/storage/chunk.rs::Chunk::parse, Header::data_bytes    (engine V, includes u02)
//
// C14 / C13: the chunk a load works on carries the header that was parsed from the file (so `checksum_valid`
// compares the checksum STORED IN THE FILE), nothing may be left over inside a chunk, a compressed change
// keeps the file's checksum, and what remains after a chunk is exactly the input after header + data.
// Assumed (listed): Header::parse (K harnesses u03_header_parse_*), the four body parsers (ghost: the body
// remembers the header it was given), flate2.
use vstd::prelude::*;
use core::num::NonZeroUsize;
use std::num::NonZeroU64;
use std::convert::TryInto;
use std::ops::Range;
verus! {

//@ include u02_parse.vt.rs

pub mod parse { pub use super::Input; pub use super::ParseError; pub use super::ParseResult; pub use super::Split; pub use super::Needed; }

impl<'a> Input<'a> {
//@ fn rust/automerge/src/storage/parse.rs | impl<'a> Input<'a> | bytes
//@   ret r
//@   spec
        ensures r == self.original,
//@ end
}

// ---------------------------------------------------------------- assumed environment (trusted)
//@ item rust/automerge/src/storage/chunk.rs | enum ChunkType
//@ item rust/automerge/src/storage/chunk.rs | struct CheckSum
//@ item rust/automerge/src/storage/chunk.rs | struct Header

pub struct Unverified;
#[verifier::external_body] pub struct Document<'a> { _p: core::marker::PhantomData<&'a ()> }
#[verifier::external_body] #[verifier::reject_recursive_types(V)] pub struct Change<'a, V> { _p: core::marker::PhantomData<&'a V> }
#[verifier::external_body] #[verifier::reject_recursive_types(V)] pub struct BundleStorage<'a, V> { _p: core::marker::PhantomData<&'a V> }
#[verifier::external_body] pub struct Compressed<'a> { _p: core::marker::PhantomData<&'a ()> }
/// `std::borrow::Cow<'a, [u8]>` as far as this function uses it
pub enum Cow<'a> { Borrowed(&'a [u8]), Owned(Vec<u8>) }

pub mod change { #[allow(unused_imports)] use vstd::prelude::*; verus!{ #[verifier::external_body] pub struct ParseError { _p: () } } }
pub mod document { #[allow(unused_imports)] use vstd::prelude::*; verus!{ #[verifier::external_body] pub struct ParseError { _p: () } } }
pub mod bundle { #[allow(unused_imports)] use vstd::prelude::*; verus!{ #[verifier::external_body] pub struct ParseError { _p: () } } }
pub mod error {
    use vstd::prelude::*;
    use super::*;
    verus!{
    pub enum Header { Leb128(super::leb128::Error), UnknownChunkType(u8), InvalidMagicBytes }
    pub enum Chunk {
        LeftoverData,
        Leb128(super::leb128::Error),
        Bundle(bundle::ParseError),
        Header(Header),
        Change(change::ParseError),
        Document(document::ParseError),
        Deflate,
    }
    impl vstd::std_specs::convert::FromSpecImpl<Header> for Chunk { open spec fn obeys_from_spec() -> bool { true } open spec fn from_spec(e: Header) -> Self { Chunk::Header(e) } }
    impl vstd::std_specs::convert::FromSpecImpl<change::ParseError> for Chunk { open spec fn obeys_from_spec() -> bool { true } open spec fn from_spec(e: change::ParseError) -> Self { Chunk::Change(e) } }
    impl vstd::std_specs::convert::FromSpecImpl<document::ParseError> for Chunk { open spec fn obeys_from_spec() -> bool { true } open spec fn from_spec(e: document::ParseError) -> Self { Chunk::Document(e) } }
    impl vstd::std_specs::convert::FromSpecImpl<bundle::ParseError> for Chunk { open spec fn obeys_from_spec() -> bool { true } open spec fn from_spec(e: bundle::ParseError) -> Self { Chunk::Bundle(e) } }
    impl From<Header> for Chunk { fn from(e: Header) -> Self { Chunk::Header(e) } }
    impl From<change::ParseError> for Chunk { fn from(e: change::ParseError) -> Self { Chunk::Change(e) } }
    impl From<document::ParseError> for Chunk { fn from(e: document::ParseError) -> Self { Chunk::Document(e) } }
    impl From<bundle::ParseError> for Chunk { fn from(e: bundle::ParseError) -> Self { Chunk::Bundle(e) } }
    }
}

/// the header at the front of a byte string (abstract; decided bit-precisely by the K harnesses u03_header_parse_*)
pub uninterp spec fn spec_hdr(s: Seq<u8>) -> Header;

impl Header {
    /// ASSUMED contract of Header::parse: the header is a function of the bytes, its declared data is present,
    /// and the returned input is positioned right behind the header
    #[verifier::external_body]
    pub fn parse<'a, E: From<error::Header>>(input: parse::Input<'a>) -> (r: parse::ParseResult<'a, Header, E>)
        requires input.wf(),
        ensures r matches Ok((i, h)) ==> h == spec_hdr(input.bytes@) && input.advanced(i, h.header_size as int) && i.wf()
                && h.header_size + h.data_len <= input.bytes.len() && (input.aligned() ==> i.aligned()),
    { unimplemented!() }
    /// ASSUMED (proved in U03): same checksum, new type and data
    #[verifier::external_body]
    pub fn with_data(&self, chunk_type: ChunkType, data: &[u8]) -> (r: Header)
        ensures r.checksum == self.checksum, r.chunk_type == chunk_type, r.data_len == data.len(), r.header_size <= 19, { unimplemented!() }
    #[verifier::external_body]
    pub fn len(&self) -> (r: usize) ensures r == self.header_size { unimplemented!() }
    #[verifier::external_body]
    pub fn write(&self, out: &mut Vec<u8>) { unimplemented!() }
    #[verifier::external_body]
    pub fn checksum(&self) -> (r: CheckSum) ensures r == self.checksum { unimplemented!() }
    #[verifier::external_body]
    pub fn hash(&self) -> (r: ChangeHash) ensures r == self.hash { unimplemented!() }

//@ fn rust/automerge/src/storage/chunk.rs | impl Header | data_bytes
//@   ret r
//@   spec
        requires self.header_size + self.data_len <= usize::MAX,
        ensures r.start == self.header_size, r.end == self.header_size + self.data_len,
//@ end
}

impl<'a> Document<'a> {
    /// the header this document body was parsed under (document.rs keeps it in `header`)
    pub uninterp spec fn spec_header(&self) -> Header;
    /// number of bytes of its input the body parser consumed
    pub uninterp spec fn spec_len(&self) -> int;
    #[verifier::external_body]
    pub fn parse(input: parse::Input<'a>, header: Header) -> (r: parse::ParseResult<'a, Document<'a>, document::ParseError>)
        ensures r matches Ok((rem, d)) ==> d.spec_header() == header && rem.bytes.len() + d.spec_len() == input.bytes.len(),
    { unimplemented!() }
}
impl<'a> Change<'a, Unverified> {
    pub uninterp spec fn spec_header(&self) -> Header;
    pub uninterp spec fn spec_len(&self) -> int;
    #[verifier::external_body]
    pub fn parse_following_header(input: parse::Input<'a>, header: Header) -> (r: parse::ParseResult<'a, Change<'a, Unverified>, change::ParseError>)
        ensures r matches Ok((rem, c)) ==> c.spec_header() == header && rem.bytes.len() + c.spec_len() == input.bytes.len(),
    { unimplemented!() }
    /// a whole change chunk (header included) -- used for the re-framed decompressed data
    #[verifier::external_body]
    pub fn parse(input: parse::Input<'a>) -> (r: parse::ParseResult<'a, Change<'a, Unverified>, change::ParseError>)
    { unimplemented!() }
    #[verifier::external_body]
    pub fn into_owned(self) -> (r: Change<'static, Unverified>) { unimplemented!() }
}
impl<'a> BundleStorage<'a, Unverified> {
    pub uninterp spec fn spec_header(&self) -> Header;
    pub uninterp spec fn spec_len(&self) -> int;
    #[verifier::external_body]
    pub fn parse_following_header(input: parse::Input<'a>, header: Header) -> (r: parse::ParseResult<'a, BundleStorage<'a, Unverified>, bundle::ParseError>)
        ensures r matches Ok((rem, b)) ==> b.spec_header() == header && rem.bytes.len() + b.spec_len() == input.bytes.len(),
    { unimplemented!() }
}
impl<'a> Compressed<'a> {
    pub uninterp spec fn spec_checksum(&self) -> CheckSum;
    #[verifier::external_body]
    pub fn new(checksum: CheckSum, bytes: Cow<'a>) -> (r: Compressed<'a>) ensures r.spec_checksum() == checksum { unimplemented!() }
}
pub mod flate2 { pub mod bufread {
    use vstd::prelude::*;
    verus!{
    #[verifier::external_body] pub struct DeflateDecoder<'a> { _p: core::marker::PhantomData<&'a ()> }
    #[verifier::external_body] pub struct IoError { _p: () }
    impl<'a> DeflateDecoder<'a> {
        #[verifier::external_body] pub fn new(b: &'a [u8]) -> DeflateDecoder<'a> { unimplemented!() }
        /// std::io::Read::read_to_end (fallible; appends)
        #[verifier::external_body] pub fn read_to_end(&mut self, out: &mut Vec<u8>) -> Result<usize, IoError>
            ensures final(out).len() <= isize::MAX   // std: a Vec never holds more than isize::MAX bytes
        { unimplemented!() }
    }
    }
} }
/// trusted wrapper for `r.len()` on a `Range<usize>` (ExactSizeIterator::len is a provided trait method: this Verus cannot
/// attach a specification to it); it stands for exactly that expression
#[verifier::external_body]
pub fn vf_range_len(r: Range<usize>) -> (n: usize)
    ensures n == (if r.start <= r.end { r.end - r.start } else { 0 })
{ r.len() }
/// trusted wrapper for `v.extend(&w)` (Extend<&u8>; no vstd specification)
#[verifier::external_body]
pub fn vf_extend_ref(v: &mut Vec<u8>, w: &Vec<u8>) ensures final(v)@ == old(v)@ + w@ { unimplemented!() }

// ---------------------------------------------------------------- the real code
//@ item rust/automerge/src/storage/chunk.rs | enum Chunk

impl<'a> Chunk<'a> {
//@ fn rust/automerge/src/storage/chunk.rs | impl<'a> Chunk<'a> | parse
//@   ret r
//@   subst /header\.data_bytes\(\)\.len\(\)/ => vf_range_len(header.data_bytes())
//@   subst /inner_chunk\.extend\(&decompressed\)/ => vf_extend_ref(&mut inner_chunk, &decompressed)
//@   spec
        requires input.wf(), input.aligned(),
        ensures
            // C13: what is left is exactly the input behind header + data
            r matches Ok((rem, c)) ==> spec_hdr(input.bytes@).header_size + spec_hdr(input.bytes@).data_len <= input.bytes.len()
                && rem.bytes@ =~= input.bytes@.subrange(spec_hdr(input.bytes@).header_size + spec_hdr(input.bytes@).data_len, input.bytes.len() as int),
            // C14: the body carries the header read from the file -- its checksum is the one checksum_valid compares
            r matches Ok((rem, Chunk::Document(d))) ==> spec_hdr(input.bytes@).chunk_type is Document && d.spec_header() == spec_hdr(input.bytes@)
                && d.spec_len() == spec_hdr(input.bytes@).data_len,   // nothing left over inside the chunk
            r matches Ok((rem, Chunk::Change(ch))) ==> spec_hdr(input.bytes@).chunk_type is Change && ch.spec_header() == spec_hdr(input.bytes@)
                && ch.spec_len() == spec_hdr(input.bytes@).data_len,
            r matches Ok((rem, Chunk::Bundle(b))) ==> spec_hdr(input.bytes@).chunk_type is Bundle && b.spec_header() == spec_hdr(input.bytes@)
                && b.spec_len() == spec_hdr(input.bytes@).data_len,
            r matches Ok((rem, Chunk::CompressedChange(ch, k))) ==> spec_hdr(input.bytes@).chunk_type is Compressed && k.spec_checksum() == spec_hdr(input.bytes@).checksum,
//@   after /\} = i\.split\(/
        proof {
            let hh = spec_hdr(input.bytes@);
            let k = hh.data_len as int;
            let cat = chunk_input.bytes@ + remaining.bytes@;
            assert(cat =~= i.bytes@);
            assert(remaining.bytes@.len() == i.bytes@.len() - k);
            assert forall|j: int| 0 <= j < remaining.bytes@.len() implies remaining.bytes@[j] == i.bytes@[k + j] by {
                assert(cat[k + j] == remaining.bytes@[j]);
            }
            assert(remaining.bytes@ =~= i.bytes@.subrange(k, i.bytes@.len() as int));
            assert(remaining.bytes@ =~= input.bytes@.subrange(hh.header_size + hh.data_len, input.bytes.len() as int));
        }
//@ end
}

} // verus!
fn main() {}
