// U21 patch-log transaction bracket -- patches/patch_log.rs::{begin_transaction, finish_transaction, migrate_actors}   (engine V)
//
// Backs the two contracts U16 ASSUMES about the patch log: `begin_transaction` may only be called with no
// speculative actor recorded (its `assert!` is the obligation) and `finish_transaction` always clears it.
// `pending()` of U16 is `speculative_actor is Some` here.
use vstd::prelude::*;
verus! {

// ---------------------------------------------------------------- assumed environment (trusted)
#[verifier::external_body] pub struct ActorId { _p: () }
impl Clone for ActorId { #[verifier::external_body] fn clone(&self) -> (r: Self) ensures r == *self { unimplemented!() } }
impl vstd::std_specs::cmp::PartialEqSpecImpl for ActorId {
    open spec fn obeys_eq_spec() -> bool { true }
    open spec fn eq_spec(&self, o: &Self) -> bool { *self == *o }
}
impl PartialEq for ActorId { #[verifier::external_body] fn eq(&self, o: &Self) -> (r: bool) ensures r == (*self == *o) { unimplemented!() } }
/// `Ord for ActorId` (derived, byte-wise): nothing about the order is used here, only that `<` is callable
impl vstd::std_specs::cmp::PartialOrdSpecImpl for ActorId {
    open spec fn obeys_partial_cmp_spec() -> bool { false }
    uninterp spec fn partial_cmp_spec(&self, o: &Self) -> Option<core::cmp::Ordering>;
}
impl PartialOrd for ActorId { #[verifier::external_body] fn partial_cmp(&self, o: &Self) -> (r: Option<core::cmp::Ordering>) { unimplemented!() } }
pub assume_specification<T: PartialEq>[ <[T]>::contains ](s: &[T], x: &T) -> (r: bool) ensures r == s@.contains(*x);

#[verifier::external_body] pub struct ObjId { _p: () }
#[verifier::external_body] pub struct OpId { _p: () }
#[verifier::external_body] pub struct Event { _p: () }
#[verifier::external_body] pub struct Patch { _p: () }
#[verifier::external_body] pub struct Prop { _p: () }
#[verifier::external_body] pub struct ChangeHash { _p: () }
#[verifier::external_body] #[verifier::reject_recursive_types(T)] pub struct HashSet<T> { _p: core::marker::PhantomData<T> }
#[verifier::external_body] #[verifier::reject_recursive_types(K)] #[verifier::reject_recursive_types(V)] pub struct BTreeMap<K, V> { _p: core::marker::PhantomData<(K, V)> }
impl Clone for ObjId { #[verifier::external_body] fn clone(&self) -> Self { unimplemented!() } }
impl Clone for OpId { #[verifier::external_body] fn clone(&self) -> Self { unimplemented!() } }
impl Clone for Event { #[verifier::external_body] fn clone(&self) -> Self { unimplemented!() } }
impl Clone for Patch { #[verifier::external_body] fn clone(&self) -> Self { unimplemented!() } }
impl Clone for Prop { #[verifier::external_body] fn clone(&self) -> Self { unimplemented!() } }
impl Clone for ChangeHash { #[verifier::external_body] fn clone(&self) -> Self { unimplemented!() } }
impl<T> Clone for HashSet<T> { #[verifier::external_body] fn clone(&self) -> Self { unimplemented!() } }
impl<K, V> Clone for BTreeMap<K, V> { #[verifier::external_body] fn clone(&self) -> Self { unimplemented!() } }

pub struct OpSet { pub actors: Vec<ActorId> }
pub struct Automerge { pub ops: OpSet }
/// the fields of TransactionArgs this code reads
pub struct TransactionArgs { pub actor_index: usize, pub seq: u64 }
pub struct PatchLogMismatch;
pub mod crate_ { pub use super::PatchLogMismatch; }

/// trusted wrapper for `<[ActorId]>::binary_search(x)` (no vstd specification); only the index range of `Ok` is used
#[verifier::external_body]
pub fn vf_binary_search(v: &Vec<ActorId>, x: &ActorId) -> (r: Result<usize, usize>)
    ensures r matches Ok(i) ==> i < v.len(), r matches Err(i) ==> i <= v.len(),
{ unimplemented!() }

/// trusted wrappers: slice equality, `to_vec`, `get` (std contracts)
#[verifier::external_body]
pub fn vf_slice_eq(v: &Vec<ActorId>, o: &[ActorId]) -> (r: bool) ensures r == (v@ == o@) { unimplemented!() }
#[verifier::external_body]
pub fn vf_to_vec(o: &[ActorId]) -> (r: Vec<ActorId>) ensures r@ == o@ { unimplemented!() }
#[verifier::external_body]
pub fn vf_get(v: &Vec<ActorId>, i: usize) -> (r: Option<&ActorId>) ensures r == (if i < v.len() { Some(&v[i as int]) } else { None::<&ActorId> }) { unimplemented!() }
#[verifier::external_body]
pub fn vf_sget(v: &[ActorId], i: usize) -> (r: Option<&ActorId>) ensures r == (if i < v.len() { Some(&v[i as int]) } else { None::<&ActorId> }) { unimplemented!() }

// ---------------------------------------------------------------- the real code
//@ item rust/automerge/src/patches/patch_log.rs | struct PatchLog

impl PatchLog {
    /// ASSUMED (body: iterator adapters over the events): re-indexes the events for an actor inserted at `index`
    #[verifier::external_body]
    fn migrate_actor(&mut self, index: usize)
        requires index < old(self).actors.len(),
        ensures final(self).speculative_actor == old(self).speculative_actor, final(self).actors == old(self).actors { unimplemented!() }

//@ fn rust/automerge/src/patches/patch_log.rs | impl PatchLog | migrate_actors
//@   ret r
//@   subst /crate::PatchLogMismatch/ => PatchLogMismatch
//@   subst /self\.actors\.as_slice\(\) == others/ => vf_slice_eq(&self.actors, others)
//@   subst /others\.to_vec\(\)/ => vf_to_vec(others)
//@   subst /self\.actors\.get\(i\)/ => vf_get(&self.actors, i)
//@   subst /others\.get\(i\)/ => vf_sget(others, i)
//@   spec
        // C37 (D28 failed here): Ok means the log's table IS the document's table -- a log that knows actors the
        // document does not (a log of another document) is a PatchLogMismatch, not a success
        ensures r is Ok ==> final(self).actors@ == others@,
            final(self).speculative_actor == old(self).speculative_actor,
//@   loop 1 iter it
            invariant it.index@ <= self.actors.len(), it.index@ <= others.len(),
                forall|k: int| 0 <= k < it.index@ ==> self.actors@[k] == others@[k],
                self.speculative_actor == old(self).speculative_actor,
                it.seq() == Seq::new(others.len() as nat, |k: int| k as usize),
//@   before /^\s*Ok\(\(\)\)\s*$/
        proof { if self.actors.len() == others.len() { assert(self.actors@ =~= others@); } }
//@ end

    /// ASSUMED (body: iterator adapters over the events): removes table entry `index`
    #[verifier::external_body]
    fn remove_actor(&mut self, index: usize)
        requires index < old(self).actors.len(),
        ensures final(self).speculative_actor == old(self).speculative_actor { unimplemented!() }

//@ fn rust/automerge/src/patches/patch_log.rs | impl PatchLog | begin_transaction
//@   ret r
//@   subst /crate::PatchLogMismatch/ => PatchLogMismatch
//@   spec
        // C37: the `assert!` below -- no speculative actor may be pending; the table index is the caller's (transaction_args)
        requires old(self).speculative_actor is None,
            args.actor_index < doc.ops.actors.len(),   // transaction_args returns an index of the table (U10 / U18)
        ensures r is Ok ==> (final(self).speculative_actor is Some <==> args.seq == 1),
            r is Err ==> final(self).speculative_actor is None,
//@ end

//@ fn rust/automerge/src/patches/patch_log.rs | impl PatchLog | finish_transaction
//@   subst /self\.actors\.binary_search\(&speculative_actor\)/ => vf_binary_search(&self.actors, &speculative_actor)
//@   spec
        // whatever happened in between, the bracket is closed: nothing stays pending
        ensures final(self).speculative_actor is None,
//@ end
}

} // verus!
fn main() {}
