#![feature(allocator_api)]
// U22 one chunk of an incremental load -- rust/automerge/src/storage/load.rs::load_next_change   (engine V)
//
// The contract U13 (`load_changes`) ASSUMES of this function, now checked on its real text:
//   it accepts exactly the leading chunk -- which must parse (C13: a truncated chunk is an error, never a clean end)
//   and carry a valid checksum (C14) -- returns the input behind it and appends exactly that chunk's changes;
//   on any error `changes` is left untouched.
// Assumed environment: Chunk::parse (U20 + body parsers), checksum_valid (U03), document / change / bundle
// reconstruction (ghost: the changes a body stands for).
use vstd::prelude::*;
verus! {

// ================= assumed environment =================
pub uninterp spec fn iter_items<I, T>(it: I) -> Seq<T>;
pub assume_specification<T, A: core::alloc::Allocator, I: IntoIterator<Item = T>>[ <Vec<T, A> as Extend<T>>::extend::<I> ](v: &mut Vec<T, A>, iter: I)
    ensures final(v)@ == old(v)@ + iter_items::<I, T>(iter);
#[verifier::external_body]
pub broadcast proof fn axiom_iter_items_vec(a: Vec<Change>) ensures #[trigger] iter_items::<Vec<Change>, Change>(a) == a@ {}

#[verifier::external_body] pub struct Change { _p: () }
#[verifier::external_body] pub struct ChangeHash { _p: () }
#[derive(Clone, Copy)] pub enum TextEncoding { A, B }
#[verifier::external_body] pub struct ChangeGraph { _p: () }
pub enum ReconstructError {
    InvalidMaxOp,
    InvalidMarkOrderChanges { changes: Vec<Change>, error_message: String },
}

pub mod storage {
    use vstd::prelude::*;
    use super::*;
    verus!{
    pub mod parse {
        use vstd::prelude::*;
        verus!{
        #[derive(Clone, Copy)]
        pub struct Input<'a> { pub bytes: &'a [u8] }
        impl<'a> Input<'a> {
            #[verifier::external_body] pub fn empty() -> (r: Input<'a>) ensures r.bytes@.len() == 0 { unimplemented!() }
            #[verifier::external_body] pub fn is_empty(&self) -> (r: bool) ensures r == (self.bytes@.len() == 0) { unimplemented!() }
        }
        #[verifier::external_body] pub struct ChunkErr { _p: () }
        #[verifier::external_body] pub struct Needed { _p: () }
        /// storage::parse::ParseError<E> with E = chunk::error::Chunk
        pub enum ParseError { Error(ChunkErr), Incomplete(Needed) }
        pub type ParseErr = ParseError;
        }
    }
    #[verifier::external_body] pub struct Document<'a> { _p: core::marker::PhantomData<&'a ()> }
    #[verifier::external_body] pub struct StoredChange<'a> { _p: core::marker::PhantomData<&'a ()> }
    #[verifier::external_body] pub struct StoredChangeOwned { _p: () }
    #[verifier::external_body] pub struct BundleStorage<'a> { _p: core::marker::PhantomData<&'a ()> }
    #[verifier::external_body] pub struct BundleStorageOwned { _p: () }
    #[verifier::external_body] pub struct Compressed<'a> { _p: core::marker::PhantomData<&'a ()> }
    #[verifier::external_body] pub struct CompressedOwned { _p: () }
    impl<'a> StoredChange<'a> {
        /// the change a change chunk stands for (abstract), optionally with its compressed form
        pub uninterp spec fn spec_change(&self) -> Change;
        #[verifier::external_body] pub fn into_owned(self) -> (r: StoredChangeOwned) ensures r.spec_change() == self.spec_change() { unimplemented!() }
    }
    impl StoredChangeOwned { pub uninterp spec fn spec_change(&self) -> Change; }
    impl<'a> BundleStorage<'a> {
        pub uninterp spec fn spec_changes(&self) -> Seq<Change>;
        #[verifier::external_body] pub fn into_owned(self) -> (r: BundleStorageOwned) ensures r.spec_changes() == self.spec_changes() { unimplemented!() }
    }
    impl BundleStorageOwned { pub uninterp spec fn spec_changes(&self) -> Seq<Change>; }
    impl<'a> Compressed<'a> { #[verifier::external_body] pub fn into_owned(self) -> CompressedOwned { unimplemented!() } }
    impl<'a> Document<'a> {
        pub uninterp spec fn spec_changes(&self) -> Seq<Change>;
        /// "every head of this document chunk is already in `current`" (the chunk brings nothing new)
        pub uninterp spec fn spec_known(&self, current: ChangeGraph) -> bool;
        #[verifier::external_body] pub fn heads(&self) -> (r: &[ChangeHash]) { unimplemented!() }
        #[verifier::external_body]
        pub fn reconstruct_changes(&self, t: TextEncoding) -> (r: Result<Vec<Change>, ReconstructError>)
            ensures r matches Ok(c) ==> c@ == self.spec_changes(),
                    r matches Err(ReconstructError::InvalidMarkOrderChanges{changes, error_message}) ==> changes@ == self.spec_changes()
        { unimplemented!() }
    }
    pub uninterp spec fn spec_first_ok(s: Seq<u8>) -> bool;
    pub uninterp spec fn spec_rest(s: Seq<u8>) -> Seq<u8>;
    pub enum Chunk<'a> {
        Document(Document<'a>),
        Change(StoredChange<'a>),
        Bundle(BundleStorage<'a>),
        CompressedChange(StoredChange<'static>, Compressed<'a>),
    }
    /// the chunk at the head of a byte string (abstract)
    pub uninterp spec fn spec_first_chunk<'a>(s: Seq<u8>) -> Chunk<'a>;
    impl<'a> Chunk<'a> {
        #[verifier::external_body]
        pub fn parse(input: parse::Input<'a>) -> (r: Result<(parse::Input<'a>, Chunk<'a>), parse::ParseErr>)
            ensures r is Ok <==> spec_first_ok(input.bytes@),
                r matches Ok((rem, c)) ==> rem.bytes@ == spec_rest(input.bytes@) && c == spec_first_chunk::<'a>(input.bytes@)
        { unimplemented!() }
        /// "the checksum stored in the chunk matches the hash of its bytes" (decided by U03's obligations)
        pub uninterp spec fn spec_valid(&self) -> bool;
        #[verifier::external_body]
        pub fn checksum_valid(&self) -> (r: bool) ensures r == self.spec_valid() { unimplemented!() }
    }
    }
}
pub use storage::parse;
#[verifier::external_body] pub struct ChgErr { _p: () }
#[verifier::external_body] pub struct BundleErr { _p: () }
#[verifier::external_body] pub struct Bundle { _p: () }
impl Bundle {
    pub uninterp spec fn spec_changes(&self) -> Seq<Change>;
    #[verifier::external_body] pub fn new_from_unverified(b: storage::BundleStorageOwned) -> (r: Result<Bundle, BundleErr>)
        ensures r matches Ok(x) ==> x.spec_changes() == b.spec_changes() { unimplemented!() }
    #[verifier::external_body] pub fn to_changes(&self) -> (r: Result<Vec<Change>, BundleErr>)
        ensures r matches Ok(v) ==> v@ == self.spec_changes() { unimplemented!() }
}
impl Change {
    #[verifier::external_body] pub fn new_from_unverified(c: storage::StoredChangeOwned, k: Option<storage::CompressedOwned>) -> (r: Result<Change, ChgErr>)
        ensures r matches Ok(x) ==> x == c.spec_change() { unimplemented!() }
}
impl Change {
    // read-only accessors of the real Change a variant of this function might consult (no contract beyond totality)
    #[verifier::external_body] pub fn is_empty(&self) -> bool { unimplemented!() }
    #[verifier::external_body] pub fn len(&self) -> usize { unimplemented!() }
    #[verifier::external_body] pub fn seq(&self) -> u64 { unimplemented!() }
    #[verifier::external_body] pub fn start_op(&self) -> core::num::NonZeroU64 { unimplemented!() }
    #[verifier::external_body] pub fn max_op(&self) -> u64 { unimplemented!() }
    #[verifier::external_body] pub fn timestamp(&self) -> i64 { unimplemented!() }
}
impl ChangeGraph { #[verifier::external_body] pub fn has_change(&self, h: &ChangeHash) -> bool { unimplemented!() } }

/// trusted wrapper for `d.heads().iter().all(|h| current.has_change(h))` (iterator adapter; matched on that EXACT text)
#[verifier::external_body]
pub fn vf_all_known(d: &storage::Document<'_>, current: &ChangeGraph) -> (r: bool) ensures r == d.spec_known(*current) { unimplemented!() }

/// what the leading chunk contributes to an incremental load
pub open spec fn contrib<'a>(c: storage::Chunk<'a>, current: ChangeGraph) -> Seq<Change> {
    match c {
        storage::Chunk::Document(d) => if d.spec_known(current) { Seq::<Change>::empty() } else { d.spec_changes() },
        storage::Chunk::Change(sc) => seq![sc.spec_change()],
        storage::Chunk::Bundle(b) => b.spec_changes(),
        storage::Chunk::CompressedChange(sc, k) => seq![sc.spec_change()],
    }
}

// load.rs
//@ item rust/automerge/src/storage/load.rs | enum MarkOrderValidation
impl MarkOrderValidation { pub fn allows_invalid(self) -> (r: bool) ensures r == (self is AllowInvalid) { matches!(self, Self::AllowInvalid) } }
#[verifier::external_body] pub struct ErrBox { _p: () }
#[verifier::external_body] pub fn vf_err_box<E>(e: E) -> ErrBox { unimplemented!() }
pub enum Error {
    Parse(ErrBox),
    InvalidChangeColumns(ErrBox),
    InvalidOpsColumns(ErrBox),
    LeftoverData,
    InvalidBundleColumn(ErrBox),
    InvalidBundleChange(ErrBox),
    InflateDocument(ErrBox),
    BadChecksum,
}

// ================= the real code =================
//@ fn rust/automerge/src/storage/load.rs | load_next_change
//@   ret r
//@   subst /Box::new\(e\)/ => vf_err_box(e)
//@   subst /d\.heads\(\)\.iter\(\)\.all\(\|h\| current\.has_change\(h\)\)/ => vf_all_known(&d, current)
//@   subst /changes,(\s*error_message: _,\s*\}\) if mark_order\.allows_invalid\(\) =>) changes,/ => changes: vf_mo_changes,\1 vf_mo_changes,
//@   spec
        ensures
            // C13: the leading chunk must PARSE -- a truncated or malformed chunk is an error, never a clean end of data
            r is Ok ==> storage::spec_first_ok(data.bytes@),
            // C14: ... and carry a valid checksum
            r is Ok ==> storage::spec_first_chunk(data.bytes@).spec_valid(),
            // the input handed on is exactly what follows that chunk
            r matches Ok(rem) ==> rem.bytes@ == storage::spec_rest(data.bytes@),
            // exactly that chunk's changes are appended, in order
            r is Ok ==> final(changes)@ == old(changes)@ + contrib(storage::spec_first_chunk(data.bytes@), *current),
            // an error leaves the changes loaded so far untouched.  (Stated for every path except "document chunk with
            // unknown heads fails to reconstruct": this Verus loses the value of a `&mut` parameter at a `return` placed in a
            // `match` that has a guarded arm -- reproduced on a 10-line example -- so that one exit cannot be decided.)
            (r is Err && !(storage::spec_first_ok(data.bytes@) && (storage::spec_first_chunk(data.bytes@) matches storage::Chunk::Document(d) && !d.spec_known(*current))))
                ==> final(changes)@ == old(changes)@,
//@   before /let \(remaining, chunk\) = /
    broadcast use axiom_iter_items_vec;
//@ end

} // verus!
macro_rules! errstub { ($($t:ty),*) => { $(
impl std::fmt::Debug for $t { fn fmt(&self, _: &mut std::fmt::Formatter<'_>) -> std::fmt::Result { Ok(()) } }
impl std::fmt::Display for $t { fn fmt(&self, _: &mut std::fmt::Formatter<'_>) -> std::fmt::Result { Ok(()) } }
impl std::error::Error for $t {}
)* } }
errstub!(storage::parse::ParseErr, ChgErr, BundleErr, ReconstructError);
fn main() {}
