// U23 identity and order of external ids -- exid.rs: PartialEq / Ord / PartialOrd for ExId     (engine V)
//
// C30 / C19: what an ExId *is* -- root, or (counter, actor id).  The actor-table index it carries is a hint that
// differs between replicas and moves when actors are inserted: it takes part neither in `==` nor in the order,
// and `==`, `cmp`, `partial_cmp` agree (an ordered map keyed by ids finds an id again after the table shifted).
use vstd::prelude::*;
use std::cmp::Ordering;
verus! {

// ---------------------------------------------------------------- assumed environment (trusted)
/// ActorId is opaque; `Ord for ActorId` (derived, byte-wise) is an abstract total order whose Equal is equality
#[verifier::external_body] pub struct ActorId { _p: () }
pub uninterp spec fn actor_cmp(a: ActorId, b: ActorId) -> Ordering;
#[verifier::external_body]
pub broadcast proof fn axiom_actor_cmp_equal(a: ActorId, b: ActorId)
    ensures (#[trigger] actor_cmp(a, b) == Ordering::Equal) <==> a == b {}
impl vstd::std_specs::cmp::PartialEqSpecImpl for ActorId {
    open spec fn obeys_eq_spec() -> bool { true }
    open spec fn eq_spec(&self, o: &Self) -> bool { *self == *o }
}
impl PartialEq for ActorId { #[verifier::external_body] fn eq(&self, o: &Self) -> (r: bool) ensures r == (*self == *o) { unimplemented!() } }
impl Eq for ActorId {}
impl vstd::std_specs::cmp::PartialOrdSpecImpl for ActorId {
    open spec fn obeys_partial_cmp_spec() -> bool { true }
    open spec fn partial_cmp_spec(&self, o: &Self) -> Option<Ordering> { Some(actor_cmp(*self, *o)) }
}
impl vstd::std_specs::cmp::OrdSpecImpl for ActorId {
    open spec fn obeys_cmp_spec() -> bool { true }
    open spec fn cmp_spec(&self, o: &Self) -> Ordering { actor_cmp(*self, *o) }
}
impl PartialOrd for ActorId { #[verifier::external_body] fn partial_cmp(&self, o: &Self) -> (r: Option<Ordering>) { unimplemented!() } }
impl Ord for ActorId { #[verifier::external_body] fn cmp(&self, o: &Self) -> (r: Ordering) { unimplemented!() } }
impl Clone for ActorId { #[verifier::external_body] fn clone(&self) -> (r: Self) ensures r == *self { unimplemented!() } }

//@ item rust/automerge/src/exid.rs | enum ExId

/// the identity of an id: the hint index is NOT part of it
pub open spec fn exid_same(a: ExId, b: ExId) -> bool {
    match (a, b) {
        (ExId::Root, ExId::Root) => true,
        (ExId::Id(c1, a1, _), ExId::Id(c2, a2, _)) => c1 == c2 && a1 == a2,
        _ => false,
    }
}
/// the order of ids: root first, then by counter, then by actor id -- never by the hint
pub open spec fn exid_cmp(a: ExId, b: ExId) -> Ordering {
    match (a, b) {
        (ExId::Root, ExId::Root) => Ordering::Equal,
        (ExId::Root, _) => Ordering::Less,
        (_, ExId::Root) => Ordering::Greater,
        (ExId::Id(c1, a1, _), ExId::Id(c2, a2, _)) =>
            if c1 == c2 { actor_cmp(a1, a2) } else if c1 < c2 { Ordering::Less } else { Ordering::Greater },
    }
}
/// Eq and Ord agree (what BTreeMap / sort / dedup rely on)
pub proof fn lemma_eq_iff_cmp_equal(a: ExId, b: ExId)
    ensures exid_same(a, b) <==> exid_cmp(a, b) == Ordering::Equal
{
    broadcast use axiom_actor_cmp_equal;
}

impl vstd::std_specs::cmp::PartialEqSpecImpl for ExId {
    open spec fn obeys_eq_spec() -> bool { true }
    open spec fn eq_spec(&self, o: &Self) -> bool { exid_same(*self, *o) }
}
impl vstd::std_specs::cmp::PartialOrdSpecImpl for ExId {
    open spec fn obeys_partial_cmp_spec() -> bool { true }
    open spec fn partial_cmp_spec(&self, o: &Self) -> Option<Ordering> { Some(exid_cmp(*self, *o)) }
}
impl vstd::std_specs::cmp::OrdSpecImpl for ExId {
    open spec fn obeys_cmp_spec() -> bool { true }
    open spec fn cmp_spec(&self, o: &Self) -> Ordering { exid_cmp(*self, *o) }
}
impl Eq for ExId {}

// ---------------------------------------------------------------- the real code (the obligations are the trait contracts:
// each method returns what the spec function above says)
impl PartialEq for ExId {
//@ fn rust/automerge/src/exid.rs | impl PartialEq for ExId | eq
//@ end
}
impl Ord for ExId {
//@ fn rust/automerge/src/exid.rs | impl Ord for ExId | cmp
//@ end
}
impl PartialOrd for ExId {
//@ fn rust/automerge/src/exid.rs | impl PartialOrd for ExId | partial_cmp
//@ end
}

} // verus!
fn main() {}
