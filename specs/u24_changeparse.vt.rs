#![feature(allocator_api)]
// U24 the change-chunk body -- rust/automerge/src/storage/change.rs::Change::parse_following_header,
// storage/parse.rs::actor_id                                              (engine V, includes the parser layer of u02)
//
// C10 / C13 / C19: a change chunk is read field by field in the order of the format, each field with the decoder of
// its type: dependencies (count + 32-byte hashes), actor (length-prefixed bytes), seq and start op (UNSIGNED LEB128,
// start op non-zero), timestamp (SIGNED LEB128), message (length-prefixed, validated UTF-8; empty = none).  Every
// field of the result is the functional decode of the input at the offset the preceding fields leave.
// Assumed (trusted wrappers matched on their exact text): the two `length_prefixed(..)` combinator applications and
// the two `range_of(..)` applications (closures returning closures: outside this Verus); column metadata parsing.
use vstd::prelude::*;
use core::num::NonZeroUsize;
use std::num::NonZeroU64;
use std::convert::TryInto;
use std::ops::Range;
use std::marker::PhantomData;
verus! {

//@ include u02_parse.vt.rs

pub mod parse {
    pub use super::{Input, ParseError, ParseResult, Split, Needed, InvalidUtf8};
    pub use super::{leb128_u64, leb128_i64, nonzero_leb128_u64, utf_8, take_n, take_rest, actor_id};
    pub mod leb128 { pub use super::super::Error; }
    pub use super::RangeOf;
}

impl<'a> Input<'a> {
//@ fn rust/automerge/src/storage/parse.rs | impl<'a> Input<'a> | bytes
//@   ret r
//@   spec
        ensures r == self.original,
//@ end
}

// ---------------------------------------------------------------- assumed environment (trusted)
/// ActorId as the byte string it wraps
#[verifier::external_body] pub struct ActorId { _p: () }
impl ActorId { pub uninterp spec fn spec_bytes(&self) -> Seq<u8>; }
impl<'a> vstd::std_specs::convert::FromSpecImpl<&'a [u8]> for ActorId {
    open spec fn obeys_from_spec() -> bool { true }
    open spec fn from_spec(b: &'a [u8]) -> Self { actor_of(b@) }
}
pub uninterp spec fn actor_of(b: Seq<u8>) -> ActorId;
#[verifier::external_body]
pub broadcast proof fn axiom_actor_of(b: Seq<u8>) ensures #[trigger] actor_of(b).spec_bytes() == b {}
impl<'a> From<&'a [u8]> for ActorId { #[verifier::external_body] fn from(b: &'a [u8]) -> (r: Self) ensures r == actor_of(b@) { unimplemented!() } }

#[verifier::external_body] pub struct Header { _p: () }
#[verifier::external_body] pub struct ChangeOpsColumns { _p: () }
impl Clone for Header { #[verifier::external_body] fn clone(&self) -> (r: Self) ensures r == *self { unimplemented!() } }
impl Clone for ActorId { #[verifier::external_body] fn clone(&self) -> (r: Self) ensures r == *self { unimplemented!() } }
impl Clone for ChangeOpsColumns { #[verifier::external_body] fn clone(&self) -> (r: Self) ensures r == *self { unimplemented!() } }
impl<'a> Clone for Cow<'a, [u8]> { #[verifier::external_body] fn clone(&self) -> (r: Self) ensures r == *self { unimplemented!() } }
pub struct Uncompressed;
#[verifier::external_body] #[verifier::reject_recursive_types(T)] pub struct RawColumns<T> { _p: PhantomData<T> }
pub struct Unknown;
pub mod raw_column { #[allow(unused_imports)] use vstd::prelude::*; verus!{ #[verifier::external_body] pub struct ParseError { _p: () } } }
/// `std::borrow::Cow<'a, [u8]>` as far as this function uses it
pub enum Cow<'a, B: ?Sized> { Borrowed(&'a B), Owned(Vec<u8>) }
impl<'a> vstd::std_specs::convert::FromSpecImpl<&'a [u8]> for Cow<'a, [u8]> {
    open spec fn obeys_from_spec() -> bool { true }
    open spec fn from_spec(b: &'a [u8]) -> Self { Cow::Borrowed(b) }
}
impl<'a> From<&'a [u8]> for Cow<'a, [u8]> { fn from(b: &'a [u8]) -> (r: Self) { Cow::Borrowed(b) } }

/// ASSUMED (UTF-8): a String has no chars exactly when it has no bytes
#[verifier::external_body]
pub broadcast proof fn axiom_string_empty(s: String) ensures (#[trigger] string_bytes(s)).len() == 0 <==> s@.len() == 0 {}

/// storage::change::ParseError
pub enum ChgParseError {
    Leb128(Error),
    InvalidUtf8(InvalidUtf8),
    RawColumns(raw_column::ParseError),
    CompressedChangeCols,
    Other,
}
impl vstd::std_specs::convert::FromSpecImpl<Error> for ChgParseError { open spec fn obeys_from_spec() -> bool { true } open spec fn from_spec(e: Error) -> Self { ChgParseError::Leb128(e) } }
impl From<Error> for ChgParseError { fn from(e: Error) -> Self { ChgParseError::Leb128(e) } }
impl vstd::std_specs::convert::FromSpecImpl<InvalidUtf8> for ChgParseError { open spec fn obeys_from_spec() -> bool { true } open spec fn from_spec(e: InvalidUtf8) -> Self { ChgParseError::InvalidUtf8(e) } }
impl From<InvalidUtf8> for ChgParseError { fn from(e: InvalidUtf8) -> Self { ChgParseError::InvalidUtf8(e) } }

/// the column-metadata block at the head of `s`: how many bytes it takes and how much column data it announces (abstract)
pub uninterp spec fn cols_len(s: Seq<u8>) -> int;
pub uninterp spec fn cols_data_len(s: Seq<u8>) -> int;
impl RawColumns<Unknown> {
    pub uninterp spec fn spec_total(&self) -> int;
    #[verifier::external_body]
    pub fn parse<'a>(input: parse::Input<'a>) -> (r: parse::ParseResult<'a, RawColumns<Unknown>, ChgParseError>)
        requires input.wf(),
        ensures r matches Ok((i, c)) ==> 0 <= cols_len(input.bytes@) && input.advanced(i, cols_len(input.bytes@)) && i.wf()
            && c.spec_total() == cols_data_len(input.bytes@) && (input.aligned() ==> i.aligned()),
    { unimplemented!() }
    #[verifier::external_body]
    pub fn total_column_len(&self) -> (r: usize) ensures r == self.spec_total() { unimplemented!() }
    #[verifier::external_body]
    pub fn uncompressed(&self) -> (r: Option<RawColumns<Uncompressed>>) { unimplemented!() }
}
impl ChangeOpsColumns {
    /// `ChangeOpsColumns::try_from(RawColumns<Uncompressed>)` with its error already lifted into the parser error
    #[verifier::external_body]
    pub fn try_from<'a>(c: RawColumns<Uncompressed>) -> (r: Result<ChangeOpsColumns, parse::ParseError<ChgParseError>>) { unimplemented!() }
}
//@ item rust/automerge/src/storage/parse.rs | struct RangeOf

/// the dependency list at the head of `s`: a LEB128 count followed by that many 32-byte hashes
pub open spec fn deps_len(s: Seq<u8>) -> int { lebk(s) + 32 * dec_val(s) }
/// trusted wrapper for `parse::length_prefixed(parse::change_hash)(input)` (a closure-returning combinator)
#[verifier::external_body]
pub fn vf_lp_change_hash<'a>(input: parse::Input<'a>) -> (r: parse::ParseResult<'a, Vec<ChangeHash>, ChgParseError>)
    requires input.wf(),
    ensures r matches Ok((i, d)) ==> dec_ok(input.bytes@) && input.advanced(i, deps_len(input.bytes@)) && i.wf() && (input.aligned() ==> i.aligned())
        && d.len() == dec_val(input.bytes@)
        && forall|j: int| 0 <= j < d.len() ==> (#[trigger] d[j]).0@ =~= input.bytes@.subrange(lebk(input.bytes@) + 32 * j, lebk(input.bytes@) + 32 * j + 32),
{ unimplemented!() }
/// the list of other actors at the head of `s` (abstract: only its extent matters to the fields behind it)
pub uninterp spec fn actors_len(s: Seq<u8>) -> int;
/// trusted wrapper for `parse::length_prefixed(parse::actor_id)(i)`
#[verifier::external_body]
pub fn vf_lp_actor_id<'a>(input: parse::Input<'a>) -> (r: parse::ParseResult<'a, Vec<ActorId>, ChgParseError>)
    requires input.wf(),
    ensures r matches Ok((i, d)) ==> 0 <= actors_len(input.bytes@) && input.advanced(i, actors_len(input.bytes@)) && i.wf() && (input.aligned() ==> i.aligned()),
{ unimplemented!() }
/// trusted wrapper for `parse::range_of(|i| parse::take_n(n, i), i)`: the positions (in the original input) of the next n bytes
#[verifier::external_body]
pub fn vf_range_take_n<'a>(n: usize, input: parse::Input<'a>) -> (r: parse::ParseResult<'a, parse::RangeOf<&'a [u8]>, ChgParseError>)
    requires input.wf(),
    ensures r matches Ok((i, ro)) ==> n <= input.bytes.len() && input.advanced(i, n as int) && i.wf() && (input.aligned() ==> i.aligned())
        && ro.range.start == input.position && ro.range.end == input.position + n,
{ unimplemented!() }
/// trusted wrapper for `parse::range_of(parse::take_rest, i)`
#[verifier::external_body]
pub fn vf_range_take_rest<'a>(input: parse::Input<'a>) -> (r: parse::ParseResult<'a, parse::RangeOf<&'a [u8]>, ChgParseError>)
    requires input.wf(),
    ensures r matches Ok((i, ro)) ==> ro.range.start == input.position && ro.range.end == input.position + input.bytes.len(),
{ unimplemented!() }

// ---------------------------------------------------------------- spec vocabulary: the offsets of the fields
/// number of bytes of the (signed or unsigned) LEB128 at the head of s: up to and including the first byte < 0x80
pub open spec fn contk(s: Seq<u8>, j: int) -> int decreases s.len() - j {
    if j < 0 || j >= s.len() || s[j] < 0x80 { j + 1 } else { contk(s, j + 1) }
}
pub proof fn lemma_contk(s: Seq<u8>, j: int, k: int)
    requires 0 <= j < k <= s.len(), forall|m: int| j <= m < k - 1 ==> #[trigger] s[m] >= 0x80, s[k - 1] < 0x80,
    ensures contk(s, j) == k,
    decreases k - j,
{
    if j < k - 1 { lemma_contk(s, j + 1, k); }
}
pub open spec fn skip(s: Seq<u8>, k: int) -> Seq<u8> { s.subrange(k, s.len() as int) }
/// input after the dependency list, the actor, seq, start op, timestamp
pub open spec fn at_actor(s: Seq<u8>) -> Seq<u8> { skip(s, deps_len(s)) }
pub open spec fn at_seq(s: Seq<u8>) -> Seq<u8> { let a = at_actor(s); skip(a, lebk(a) + dec_val(a)) }
pub open spec fn at_start(s: Seq<u8>) -> Seq<u8> { let a = at_seq(s); skip(a, lebk(a)) }
pub open spec fn at_time(s: Seq<u8>) -> Seq<u8> { let a = at_start(s); skip(a, lebk(a)) }
pub open spec fn at_msg(s: Seq<u8>) -> Seq<u8> { let a = at_time(s); skip(a, contk(a, 0)) }

pub trait OpReadState {}
#[derive(Clone)]
pub struct Unverified;
impl OpReadState for Unverified {}

//@ fn rust/automerge/src/storage/parse.rs | actor_id
//@   ret r
//@   spec
    requires input.wf(),
    ensures r matches Ok((i, a)) ==> ({ let k = lebk(input.bytes@); let n = dec_val(input.bytes@);
            dec_ok(input.bytes@) && k + n <= input.bytes.len() && a.spec_bytes() == input.bytes@.subrange(k, k + n) && input.advanced(i, k + n) && i.wf()
            && (input.aligned() ==> i.aligned()) }),
//@   before /^    Ok\(\(i, bytes\.into\(\)\)\)$/
    proof {
        broadcast use axiom_actor_of;
        let k = lebk(input.bytes@);
        assert(forall|m: int| 0 <= m <= input.bytes.len() - k ==> #[trigger] input.bytes@.subrange(k, input.bytes.len() as int).subrange(0, m) =~= input.bytes@.subrange(k, k + m));
    }
//@ end

#[verifier::external_body] pub struct ChangeOp { _p: () }
pub enum ReadChangeOpError { CounterTooLarge, Other }
pub struct Verified;
impl OpReadState for Verified {}
impl Clone for Verified { fn clone(&self) -> Self { Verified } }

/// storage/change.rs: inside it `ParseError` is the change error type, `parse::ParseError` the parser's
pub mod change {
use vstd::prelude::*;
use super::*;
pub use super::ChgParseError as ParseError;
verus!{
//@ item rust/automerge/src/storage/change.rs | struct Change

impl<'a> Change<'a, Unverified> {
//@ fn rust/automerge/src/storage/change.rs | impl<'a> Change<'a, Unverified> | parse_following_header
//@   ret r
//@   attr #[verifier::rlimit(300)]
//@   attr #[verifier::spinoff_prover]
//@   subst /parse::length_prefixed\(parse::change_hash\)\(input\)/ => vf_lp_change_hash(input)
//@   subst /parse::length_prefixed\(parse::actor_id\)\(i\)/ => vf_lp_actor_id(i)
//@   subst /parse::range_of\(\|i\| parse::take_n\(ops_meta\.total_column_len\(\), i\), i\)/ => vf_range_take_n(ops_meta.total_column_len(), i)
//@   subst /parse::range_of\(parse::take_rest, i\)/ => vf_range_take_rest(i)
//@   spec
        requires input.wf(), input.aligned(),
        ensures
            // dependencies: count, then 32 bytes each
            r matches Ok((rest, c)) ==> dec_ok(input.bytes@) && c.dependencies.len() == dec_val(input.bytes@),
            r matches Ok((rest, c)) ==> forall|j: int| 0 <= j < c.dependencies.len() ==> (#[trigger] c.dependencies[j]).0@ =~= input.bytes@.subrange(lebk(input.bytes@) + 32 * j, lebk(input.bytes@) + 32 * j + 32),
            // actor: length-prefixed bytes right behind the dependencies
            r matches Ok((rest, c)) ==> c.actor.spec_bytes() == at_actor(input.bytes@).subrange(lebk(at_actor(input.bytes@)), lebk(at_actor(input.bytes@)) + dec_val(at_actor(input.bytes@))),
            // seq and start op: unsigned LEB128 ...
            r matches Ok((rest, c)) ==> c.seq as nat == dec_val(at_seq(input.bytes@)),
            r matches Ok((rest, c)) ==> c.start_op.get() as nat == dec_val(at_start(input.bytes@)),
            // ... the TIMESTAMP is SIGNED LEB128
            r matches Ok((rest, c)) ==> c.timestamp as int == svalk(at_time(input.bytes@), contk(at_time(input.bytes@), 0) as nat),
            // message: length-prefixed, validated UTF-8, empty means none
            r matches Ok((rest, c)) ==> dec_ok(at_msg(input.bytes@)),
            r matches Ok((rest, Change { message: Some(m), .. })) ==> dec_val(at_msg(input.bytes@)) > 0 && valid_utf8(string_bytes(m))
                && string_bytes(m) == at_msg(input.bytes@).subrange(lebk(at_msg(input.bytes@)), lebk(at_msg(input.bytes@)) + dec_val(at_msg(input.bytes@))),
            r matches Ok((rest, Change { message: None, .. })) ==> dec_val(at_msg(input.bytes@)) == 0,
            // the header is the one handed in; the whole input is kept as the chunk bytes
            r matches Ok((rest, c)) ==> c.header == header && c.bytes == Cow::<[u8]>::Borrowed(input.original),
//@   before /let \(i, actor\) = /
        let ghost s = input.bytes@;
        let ghost i_actor = i;
        proof { assert(i.bytes@ =~= at_actor(s)); }
//@   before /let \(i, seq\) = /
        let ghost i_seq = i;
        proof { assert(i.bytes@ =~= at_seq(s)); }
//@   before /let \(i, start_op\) = /
        let ghost i_start = i;
        proof { assert(i.bytes@ =~= at_start(s)); }
//@   before /let \(i, timestamp\) = /
        let ghost i_time = i;
        proof {
            let k = i.position - i_start.position;
            lemma_lebk(i_start.bytes@, k);
            assert(i.bytes@ =~= at_time(s));
        }
//@   before /let \(i, message_len\) = /
        let ghost i_msg = i;
        proof {
            let k = i.position - i_time.position;
            lemma_contk(i_time.bytes@, 0, k);
            assert(i.bytes@ =~= at_msg(s));
        }
//@   before /let \(i, other_actors\) = /
        proof {
            broadcast use axiom_string_empty;
            assert(message_len as nat == dec_val(i_msg.bytes@));
            assert(string_bytes(message).len() == message_len);
            let k = lebk(i_msg.bytes@);
            assert(forall|m: int| 0 <= m <= i_msg.bytes.len() - k ==> #[trigger] i_msg.bytes@.subrange(k, i_msg.bytes.len() as int).subrange(0, m) =~= i_msg.bytes@.subrange(k, k + m));
        }
//@ end

    /// trusted wrapper for `self.iter_ops()` (an `impl Iterator` over the op columns): the decoded ops, or the first error
    #[verifier::external_body]
    pub fn vf_ops(&self) -> (r: Vec<Result<ChangeOp, ReadChangeOpError>>) ensures r.len() < usize::MAX { unimplemented!() }

//@ fn rust/automerge/src/storage/change.rs | impl<'a> Change<'a, Unverified> | verify_ops
//@   ret r
//@   subst /self\.iter_ops\(\)/ => self.vf_ops()
//@   spec
        requires forall|o: ChangeOp| #[trigger] f.requires((o,)),
        ensures
            // C15 / C37: a verified change has EVERY op counter (start_op .. start_op + num_ops - 1) inside the u32 range
            // of an op id -- what Automerge::import_ops relies on when it builds OpId::new(start_op + i, ..)
            r matches Ok(c) ==> c.start_op.get() + (if c.num_ops == 0 { 0int } else { c.num_ops - 1 }) <= u32::MAX
                && c.start_op == self.start_op && c.seq == self.seq && c.timestamp == self.timestamp && c.header == self.header,
//@   loop 1 iter it
            invariant num_ops == it.index@, it.seq().len() < usize::MAX, forall|o: ChangeOp| #[trigger] f.requires((o,)),
//@ end
}
}
}

} // verus!
fn main() {}
