#![feature(allocator_api)]
// U25 persisted sync state -- rust/automerge/src/sync/state.rs::State::{encode, parse, decode}   (engine V, includes u02)
//
// C19: a persisted sync::State is the type byte 0x43, the LEB128 count of shared heads and the 32-byte hashes; parse
// reads exactly that and resets every transient field; decode(encode(s)) gives back the shared heads for EVERY state
// (round-trip lemma over the two contracts).  Assumed: `encode_hashes` (= encode_many over the hashes; its count
// prefix is backed for all counts by K u05_encode_many_prefix) and the `length_prefixed(change_hash)` combinator.
use vstd::prelude::*;
use core::num::NonZeroUsize;
use std::num::NonZeroU64;
use std::convert::TryInto;
verus! {

//@ include u02_parse.vt.rs

pub mod parse {
    pub use super::{Input, ParseError, ParseResult, Split, Needed, take1};
    pub mod leb128 { pub use super::super::Error; }
}

// ---------------------------------------------------------------- assumed environment (trusted)
#[verifier::external_body] #[verifier::reject_recursive_types(T)] pub struct BTreeSet<T> { _p: core::marker::PhantomData<T> }
impl<T> BTreeSet<T> {
    pub uninterp spec fn view(&self) -> Set<T>;
    #[verifier::external_body] pub fn new() -> (r: Self) ensures r.view() == Set::<T>::empty() { unimplemented!() }
}
impl<T> Clone for BTreeSet<T> { #[verifier::external_body] fn clone(&self) -> (r: Self) ensures r == *self { unimplemented!() } }
impl<T> PartialEq for BTreeSet<T> { #[verifier::external_body] fn eq(&self, o: &Self) -> bool { unimplemented!() } }
impl<T> Eq for BTreeSet<T> {}
#[verifier::external_body] pub struct BloomFilter { _p: () }
impl PartialEq for BloomFilter { #[verifier::external_body] fn eq(&self, o: &Self) -> bool { unimplemented!() } }
impl Eq for BloomFilter {}
impl Clone for BloomFilter { #[verifier::external_body] fn clone(&self) -> (r: Self) ensures r == *self { unimplemented!() } }
//@ item rust/automerge/src/sync.rs | enum Capability
//@ item rust/automerge/src/sync/state.rs | const SYNC_STATE_TYPE
//@ item rust/automerge/src/sync/state.rs | enum DecodeError
//@ item rust/automerge/src/sync/state.rs | struct Have
//@ item rust/automerge/src/sync/state.rs | struct State

/// the concatenation of the hashes
pub open spec fn cat_hashes(h: Seq<ChangeHash>) -> Seq<u8> decreases h.len() {
    if h.len() == 0 { Seq::<u8>::empty() } else { cat_hashes(h.drop_last()) + h.last().0@ }
}
/// wire form of a hash list: LEB128 count, then the hashes
pub open spec fn hashes_enc(h: Seq<ChangeHash>) -> Seq<u8> { leb(h.len() as nat) + cat_hashes(h) }
/// ASSUMED contract of sync::encode_hashes (= encode_many(buf, hashes.iter(), |buf, h| buf.extend(h.as_bytes())))
#[verifier::external_body]
pub fn encode_hashes(buf: &mut Vec<u8>, hashes: &[ChangeHash])
    ensures final(buf)@ == old(buf)@ + hashes_enc(hashes@) { unimplemented!() }
/// what `length_prefixed(change_hash)` reads back: functional inverse of hashes_enc on its image (ASSUMED; the
/// element parser `change_hash` and the count parser `leb128_u64` are proved in U02)
pub uninterp spec fn hashes_dec(s: Seq<u8>) -> Option<(Seq<ChangeHash>, int)>;
#[verifier::external_body]
pub broadcast proof fn axiom_hashes_dec_enc(h: Seq<ChangeHash>, rest: Seq<u8>)
    requires h.len() <= u64::MAX,
    ensures #[trigger] hashes_dec(hashes_enc(h) + rest) == Some((h, hashes_enc(h).len() as int)) {}
/// trusted wrapper for `parse::length_prefixed(parse::change_hash)(i)` (closure-returning combinator), matched on its exact text
#[verifier::external_body]
pub fn vf_lp_change_hash<'a>(input: parse::Input<'a>) -> (r: parse::ParseResult<'a, Vec<ChangeHash>, DecodeError>)
    requires input.wf(),
    ensures r matches Ok((i, d)) ==> (hashes_dec(input.bytes@) matches Some((h, k)) && d@ == h && input.advanced(i, k) && i.wf()),
        hashes_dec(input.bytes@) is Some ==> r is Ok,
{ unimplemented!() }

impl State {
    /// every field except the shared heads is transient: a parsed state starts a fresh session
    pub open spec fn fresh_session(&self) -> bool {
        &&& self.last_sent_heads@.len() == 0 && self.their_heads is None && self.their_need is None
        &&& (self.their_have matches Some(v) && v@.len() == 0)
        &&& self.sent_hashes.view() == Set::<ChangeHash>::empty()
        &&& !self.in_flight && !self.have_responded && self.their_capabilities is None
        &&& !self.read_only && !self.peer_read_only && !self.needs_reset
    }

//@ fn rust/automerge/src/sync/state.rs | impl State | encode
//@   ret r
//@   spec
        ensures r@ == seq![SYNC_STATE_TYPE] + hashes_enc(self.shared_heads@),
//@ end

//@ fn rust/automerge/src/sync/state.rs | impl State | parse
//@   ret r
//@   subst /parse::length_prefixed\(parse::change_hash\)\(i\)/ => vf_lp_change_hash(i)
//@   spec
        requires input.wf(),
        ensures
            r matches Ok((i, st)) ==> input.bytes.len() >= 1 && input.bytes[0] == SYNC_STATE_TYPE && st.fresh_session()
                && (hashes_dec(input.bytes@.subrange(1, input.bytes.len() as int)) matches Some((h, k)) && st.shared_heads@ == h),
            // a record of this type whose hash list is well formed is accepted
            (input.bytes.len() >= 1 && input.bytes[0] == SYNC_STATE_TYPE && hashes_dec(input.bytes@.subrange(1, input.bytes.len() as int)) is Some) ==> r is Ok,
//@ end

//@ fn rust/automerge/src/sync/state.rs | impl State | decode
//@   ret r
//@   spec
        ensures
            r matches Ok(st) ==> input.len() >= 1 && input[0] == SYNC_STATE_TYPE && st.fresh_session()
                && (hashes_dec(input@.subrange(1, input.len() as int)) matches Some((h, k)) && st.shared_heads@ == h),
            (input.len() >= 1 && input.len() < usize::MAX && input[0] == SYNC_STATE_TYPE && hashes_dec(input@.subrange(1, input.len() as int)) is Some) ==> r is Ok,
//@ end
}

/// C19: decode(encode(s)) has the shared heads of s, for every state
pub proof fn lemma_state_roundtrip(heads: Seq<ChangeHash>)
    requires heads.len() <= u64::MAX,
    ensures ({ let b = seq![SYNC_STATE_TYPE] + hashes_enc(heads);
        b.len() >= 1 && b[0] == SYNC_STATE_TYPE && hashes_dec(b.subrange(1, b.len() as int)) == Some((heads, hashes_enc(heads).len() as int)) }),
{
    broadcast use axiom_hashes_dec_enc;
    let b = seq![SYNC_STATE_TYPE] + hashes_enc(heads);
    assert(b.subrange(1, b.len() as int) =~= hashes_enc(heads) + Seq::<u8>::empty());
}

} // verus!
fn main() {}
