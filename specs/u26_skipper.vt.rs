// U26 visibility skipper -- rust/automerge/src/iter/tools.rs::BoolColumnSkipper::{next, shift_next, new}   (engine V)
//
// C37: the iterator behind `map_range` / `list_range` / `keys` / `values` never panics whatever RANGE it is given --
// in particular a reversed range (start > end), which a caller can produce with `map_range("z".."a")` -- and whatever
// runs the underlying boolean column yields: every subtraction that involves the range saturates, no sum overflows.
// The hexane column iterator is replaced by an ARBITRARY source of runs with a ghost count of the items it still holds.
use vstd::prelude::*;
use std::ops::Range;
verus! {
global layout usize is size == 8;

// ---------------------------------------------------------------- assumed environment (trusted)
pub mod hexane {
    use vstd::prelude::*;
    use std::ops::Range;
    verus!{
    #[derive(Clone, Copy)]
    pub struct Run<V> { pub count: usize, pub value: V }
    #[verifier::external_body] #[verifier::reject_recursive_types(T)]
    pub struct Iter<'a, T> { _p: core::marker::PhantomData<&'a T> }
    impl<'a> Iter<'a, bool> {
        /// items the iterator still holds (abstract); a column holds fewer than 2^62 items
        pub uninterp spec fn remaining(&self) -> nat;
        /// runs the iterator still holds (abstract; a termination measure: zero-length runs are allowed)
        pub uninterp spec fn runs_left(&self) -> nat;
        /// ARBITRARY next run: any value, any count up to what is left
        #[verifier::external_body]
        pub fn next_run(&mut self) -> (r: Option<Run<bool>>)
            ensures r matches Some(run) ==> run.count <= old(self).remaining() && final(self).remaining() == old(self).remaining() - run.count
                    && final(self).runs_left() < old(self).runs_left(),
                r is None ==> final(self).remaining() == old(self).remaining(),
        { unimplemented!() }
        /// re-position on `range` (any range): ARBITRARY first value; what is left fits the size assumption
        #[verifier::external_body]
        pub fn shift_next(&mut self, range: Range<usize>) -> (r: Option<bool>)
            ensures final(self).remaining() < 0x4000_0000_0000_0000,
                r is Some ==> range.start + 1 + final(self).remaining() < 0x4000_0000_0000_0000,
        { unimplemented!() }
    }
    impl<'a> Clone for Iter<'a, bool> { #[verifier::external_body] fn clone(&self) -> (r: Self) ensures r == *self { unimplemented!() } }
    impl<'a> Default for Iter<'a, bool> { #[verifier::external_body] fn default() -> (r: Self) { unimplemented!() } }
    }
}

pub assume_specification<Idx: Clone>[ <Range<Idx> as Clone>::clone ](r: &Range<Idx>) -> (c: Range<Idx>) ensures c == *r;

//@ item rust/automerge/src/iter/tools.rs | struct BoolColumnSkipper

impl<'a> BoolColumnSkipper<'a> {
    /// size assumption: positions and run counts stay far below usize::MAX (columns hold < 2^62 items)
    pub open spec fn wf(&self) -> bool {
        self.cursor + self.pending + self.iter.remaining() < 0x4000_0000_0000_0000
    }

//@ fn rust/automerge/src/iter/tools.rs | impl Iterator for BoolColumnSkipper<'_> | next
//@   ret r
//@   subst /Option<Self::Item>/ => Option<usize>
//@   spec
        // NO precondition on `self.range`: any range, reversed ones included
        requires old(self).wf() || old(self).exhausted,
        ensures old(self).exhausted ==> r is None,
            !old(self).exhausted ==> r is Some,
            final(self).exhausted || final(self).wf(),
            r matches Some(v) ==> v + old(self).cursor <= usize::MAX,
//@   loop 1
            invariant self.iter.remaining() + skipped as nat <= old(self).iter.remaining(),
                self.cursor == old(self).cursor, self.cursor + old(self).iter.remaining() < 0x4000_0000_0000_0000,
                self.range == old(self).range, !self.exhausted, self.pending == 0,
            decreases self.iter.runs_left(),
//@ end

//@ fn rust/automerge/src/iter/tools.rs | impl Shiftable for BoolColumnSkipper<'_> | shift_next
//@   ret r
//@   subst /Option<<Self as Iterator>::Item>/ => Option<usize>
//@   spec
        // any range at all
        ensures r is Some,
//@ end
}

} // verus!
fn main() {}
