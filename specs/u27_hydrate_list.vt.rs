// U27 hydrated sequence patches -- rust/automerge/src/hydrate/list.rs::List::apply, hydrate/text.rs::Text::apply   (engine V)
//
// C37: `hydrate::Value::apply_patches` is a public function over the public type `PatchAction`.  Applying ANY patch
// action to a hydrated list returns -- Ok or an error -- it never panics: every index handed to the sequence tree is
// inside it (insert: 0..=len, remove / get_mut: 0..len) and no arm is `todo!()` (D20, D21 lived here).
use vstd::prelude::*;
verus! {
global layout usize is size == 8;

// ---------------------------------------------------------------- assumed environment (trusted)
#[verifier::external_body] pub struct PValue { _p: () }      // crate::Value<'static> of a patch
#[verifier::external_body] pub struct ObjId { _p: () }
#[verifier::external_body] pub struct Value { _p: () }       // hydrate::Value
#[verifier::external_body] pub struct ConcreteTextValue { _p: () }
#[verifier::external_body] pub struct MarkSet { _p: () }
#[verifier::external_body] pub struct Mark { _p: () }
#[derive(Clone, Copy)] pub enum TextEncoding { A, B }
impl Clone for PValue { #[verifier::external_body] fn clone(&self) -> Self { unimplemented!() } }
impl Value { #[verifier::external_body] pub fn new(v: PValue, t: TextEncoding) -> Value { unimplemented!() } }
pub enum Prop { Map(String), Seq(usize) }
pub enum HydrateError { InvalidIndex(usize), InvalidListOp, BadIncrement, InvalidEncoding, InvalidTextOp(PatchAction), Other }
pub struct MismatchedEncoding;
/// text_value::ConcreteTextValue: the contracts of splice / remove are their panic conditions (they index the unit vector)
impl ConcreteTextValue {
    pub uninterp spec fn spec_len(&self) -> nat;
    #[verifier::external_body]
    pub fn len(&self) -> (r: usize) ensures r == self.spec_len() { unimplemented!() }
    #[verifier::external_body]
    pub fn splice(&mut self, index: usize, value: &str)
        requires index <= old(self).spec_len(),
        // size assumption (listed): a text value never holds 2^62 units (memory)
        ensures final(self).spec_len() == old(self).spec_len() + spec_width(value), final(self).spec_len() < 0x4000_0000_0000_0000 { unimplemented!() }
    #[verifier::external_body]
    pub fn splice_text_value(&mut self, index: usize, other: &ConcreteTextValue) -> (r: Result<(), MismatchedEncoding>)
        requires index <= old(self).spec_len() { unimplemented!() }
    #[verifier::external_body]
    pub fn remove(&mut self, index: usize)
        requires index < old(self).spec_len(),
        ensures final(self).spec_len() == old(self).spec_len() - 1 { unimplemented!() }
}
/// the width of a string in the document's text encoding (abstract; TextEncoding::width)
pub uninterp spec fn spec_width(s: &str) -> nat;
impl TextEncoding {
    #[verifier::external_body]
    pub fn width(&self, s: &str) -> (r: usize) ensures r == spec_width(s), r < 0x4000_0000_0000_0000 { unimplemented!() }
}
impl Value { #[verifier::external_body] pub fn as_str(&self) -> (r: &str) { unimplemented!() } }
impl InsertValues {
    /// trusted wrapper target for `values.iter()` in Text::apply: the inserted values in order
    #[verifier::external_body]
    pub fn iter_vec(&self) -> (r: Vec<(PValue, ObjId, bool)>) ensures r.len() < 0x1_0000_0000 { unimplemented!() }
}
pub struct HashMapSV;

/// crate::SequenceTree<T>: the contracts are its panic conditions (sequence_tree.rs asserts the index)
#[verifier::external_body] #[verifier::reject_recursive_types(T)]
pub struct SequenceTree<T> { _p: core::marker::PhantomData<T> }
impl<T> SequenceTree<T> {
    pub uninterp spec fn spec_len(&self) -> nat;
    #[verifier::external_body]
    pub fn len(&self) -> (r: usize) ensures r == self.spec_len() { unimplemented!() }
    #[verifier::external_body]
    pub fn insert(&mut self, index: usize, element: T)
        requires index <= old(self).spec_len(),
        ensures final(self).spec_len() == old(self).spec_len() + 1 { unimplemented!() }
    #[verifier::external_body]
    pub fn remove(&mut self, index: usize) -> (r: T)
        requires index < old(self).spec_len(),
        ensures final(self).spec_len() == old(self).spec_len() - 1 { unimplemented!() }
    /// trusted wrapper for `self.0.get_mut(index)` used as an assignment target / receiver
    #[verifier::external_body]
    pub fn get_mut(&mut self, index: usize) -> (r: Option<&mut T>)
        ensures r is Some <==> index < old(self).spec_len(), final(self).spec_len() == old(self).spec_len() { unimplemented!() }
}
/// the values of an Insert patch (a SequenceTree in the real type): consumed in order
#[verifier::external_body] pub struct InsertValues { _p: () }
/// trusted wrapper for `values.into_iter().enumerate()`: the pairs (0, v0), (1, v1), ...
#[verifier::external_body]
pub fn vf_enumerate(values: InsertValues) -> (r: Vec<(usize, (PValue, ObjId, bool))>)
    ensures forall|k: int| 0 <= k < r.len() ==> (#[trigger] r[k]).0 == k,
        r.len() < 0x4000_0000_0000_0000,
{ unimplemented!() }

pub enum PatchAction {
    PutMap { key: String, value: (PValue, ObjId), conflict: bool },
    PutSeq { index: usize, value: (PValue, ObjId), conflict: bool },
    Insert { index: usize, values: InsertValues },
    SpliceText { index: usize, value: ConcreteTextValue, marks: Option<MarkSet> },
    Increment { prop: Prop, value: i64 },
    Conflict { prop: Prop },
    DeleteMap { key: String },
    DeleteSeq { index: usize, length: usize },
    Mark { marks: Vec<Mark> },
}

pub struct ListValue { pub value: Value, pub conflict: bool }
impl ListValue {
    #[verifier::external_body] pub fn new(value: Value, conflict: bool) -> ListValue { unimplemented!() }
    #[verifier::external_body] pub fn increment(&mut self, n: i64) -> Result<(), HydrateError> { unimplemented!() }
}

// ---------------------------------------------------------------- the real code
pub struct List(pub SequenceTree<ListValue>);

impl List {
//@ fn rust/automerge/src/hydrate/list.rs | impl List | apply
//@   ret r
//@   subst /values\.into_iter\(\)\.enumerate\(\)/ => vf_enumerate(values)
//@   spec
        // NO precondition: any patch action, any indexes, any list (shorter than 2^62)
        requires old(self).0.spec_len() < 0x4000_0000_0000_0000,
        ensures true,
//@   loop 1 iter it
                    invariant
                        index <= old(self).0.spec_len(), old(self).0.spec_len() < 0x4000_0000_0000_0000, it.seq().len() < 0x4000_0000_0000_0000,
                        self.0.spec_len() == old(self).0.spec_len() + it.index@,
                        forall|k: int| 0 <= k < it.seq().len() ==> (#[trigger] it.seq()[k]).0 == k,
//@   loop 2 iter it
                    invariant
                        index + length <= old(self).0.spec_len(),
                        self.0.spec_len() == old(self).0.spec_len() - it.index@,
                        it.seq().len() == length,
//@ end
}

/// the part of hydrate::Text this function touches (its `marks` map is never populated)
pub struct Text { pub value: ConcreteTextValue, pub marks: HashMapSV }
pub mod super_ { pub use super::Value; }
impl Text {
//@ fn rust/automerge/src/hydrate/text.rs | impl Text | apply
//@   ret r
//@   subst /values\.iter\(\)/ => values.iter_vec()
//@   subst /super::Value::new/ => Value::new
//@   spec
        // NO precondition on the patch: any action, any indexes (text shorter than 2^62 units)
        requires old(self).value.spec_len() < 0x4000_0000_0000_0000,
        ensures true,
//@   loop 1 iter it
                    invariant
                        index <= self.value.spec_len(), self.value.spec_len() < 0x4000_0000_0000_0000,
//@   loop 2 iter it
                    invariant
                        index + length <= old(self).value.spec_len(),
                        self.value.spec_len() == old(self).value.spec_len() - it.index@,
                        it.seq().len() == length,
//@ end
}

} // verus!
fn main() {}
