// U28 value metadata -- rust/automerge/src/op_set2/meta.rs: ValueMeta::{type_code, length}, PrefixValue::{accumulate,
// accumulate_run}                                                                              (engine V)
//
// C15 / C17: value metadata comes from untrusted columns.  `length` and `type_code` are total on every u64, and the
// prefix sums hexane builds from them while a column is LOADED (before anything can be validated) never overflow:
// they saturate, for every metadata value and every run length (D23 lived here).
use vstd::prelude::*;
verus! {
global layout usize is size == 8;

//@ item rust/automerge/src/op_set2/meta.rs | enum ValueType
//@ item rust/automerge/src/op_set2/meta.rs | struct ValueMeta
pub mod hexane {
    use vstd::prelude::*;
    verus!{ pub struct Run<V> { pub count: usize, pub value: V } }
}

impl ValueMeta {
//@ fn rust/automerge/src/op_set2/meta.rs | impl ValueMeta | type_code
//@   ret r
//@   spec
        // total; the type is the low nibble
        ensures r matches ValueType::Unknown(c) ==> c >= 10 && c == (self.0 as u8) & 0x0f,
            ((self.0 as u8) & 0x0f) == 6 <==> r is String,
//@ end

//@ fn rust/automerge/src/op_set2/meta.rs | impl ValueMeta | length
//@   ret r
//@   spec
        ensures r == self.0 >> 4, r < 0x1000_0000_0000_0000,
//@   before /\(self\.0 >> 4\) as usize/
        proof { let x = self.0; assert(x >> 4 < 0x1000_0000_0000_0000u64) by (bit_vector); }
//@ end

//@ fn rust/automerge/src/op_set2/meta.rs | impl hexane::PrefixValue for ValueMeta | accumulate
//@   spec
        // no precondition: any running total, any metadata
        ensures *final(target) == (if *old(target) + (val.0 >> 4) > u64::MAX { u64::MAX as int } else { *old(target) + (val.0 >> 4) }),
//@ end

//@ fn rust/automerge/src/op_set2/meta.rs | impl hexane::PrefixValue for ValueMeta | accumulate_run
//@   spec
        // no precondition: any running total, any metadata, any run length
        ensures *final(target) == (if *old(target) + (run.value.0 >> 4) * run.count > u64::MAX { u64::MAX as int } else { *old(target) + (run.value.0 >> 4) * run.count }),
//@   before /\*target/
        proof { assert((run.value.0 >> 4) as int * run.count as int >= 0) by (nonlinear_arith); }
//@ end
}

} // verus!
fn main() {}
