// U29 hexane prefix sums -- rust/hexane/src/prefix.rs: PrefixValue for u32 / NonZeroU32, PrefixWeightFn::accumulate_run        (engine V)
//
// C35 / C15: `PrefixColumn<u32>` accumulates values and run counts taken from untrusted bytes WHILE a column is being
// loaded (automerge loads the successor-count column of a document this way).  For every running total, every value
// and every run length the accumulation saturates -- exact postcondition, no precondition (D24 lived here).
use vstd::prelude::*;
use core::ops::{AddAssign, SubAssign};
verus! {
global layout usize is size == 8;

#[derive(Clone, Copy)]
pub struct Run<V> { pub count: usize, pub value: V }

pub struct ForU32;
impl ForU32 {
//@ fn rust/hexane/src/prefix.rs | impl PrefixValue for u32 | accumulate
//@   spec
        ensures *final(target) == (if *old(target) + val > u64::MAX { u64::MAX as int } else { *old(target) + val }),
//@ end
//@ fn rust/hexane/src/prefix.rs | impl PrefixValue for u32 | accumulate_run
//@   spec
        ensures *final(target) == (if *old(target) + run.value * run.count > u64::MAX { u64::MAX as int } else { *old(target) + run.value * run.count }),
//@   before /\*target/
        proof { assert(run.value as int * run.count as int >= 0) by (nonlinear_arith); }
//@ end
}
pub struct ForNonZeroU32;
impl ForNonZeroU32 {
//@ fn rust/hexane/src/prefix.rs | impl PrefixValue for std::num::NonZeroU32 | accumulate
//@   spec
        ensures *final(target) == (if *old(target) + val.get() > u64::MAX { u64::MAX as int } else { *old(target) + val.get() }),
//@ end
//@ fn rust/hexane/src/prefix.rs | impl PrefixValue for std::num::NonZeroU32 | accumulate_run
//@   spec
        ensures *final(target) == (if *old(target) + run.value.get() * run.count > u64::MAX { u64::MAX as int } else { *old(target) + run.value.get() * run.count }),
//@   before /\*target/
        proof { assert(run.value.get() as int * run.count as int >= 0) by (nonlinear_arith); }
//@ end
}

// ---- the per-slab weight of a prefix column: its item count is a sum of untrusted run counts (D29 lived here)
pub enum PackError { InvalidValue(String), Other }
/// the error text (a `&str` literal `.into()` a String; strings are opaque to this Verus)
#[verifier::external_body] pub fn vf_msg() -> String { unimplemented!() }
/// the two associated items of `PrefixValue` / `ColumnValueRef` this function names (ASSUMED: arbitrary accumulation)
pub trait PrefixValue { type Prefix: Clone + Default + core::fmt::Debug + AddAssign + SubAssign; type Get; fn accumulate_run(target: &mut Self::Prefix, run: &Run<Self::Get>); }
//@ item rust/hexane/src/prefix.rs | struct PrefixSlabWeight
pub struct ForWeightFn<T>(core::marker::PhantomData<T>);
impl<T: PrefixValue> ForWeightFn<T> {
//@ fn rust/hexane/src/prefix.rs | impl<T: PrefixValue, C: Codec> WeightFn<T, C> for PrefixWeightFn<T> | accumulate_run
//@   ret r
//@   subst /Self::Weight/ => PrefixSlabWeight<T::Prefix>
//@   subst /T::Get<'_>/ => T::Get
//@   subst /crate::PackError/ => PackError
//@   subst /"column length out of range"\.into\(\)/ => vf_msg()
//@   spec
        // any count: the item count grows by exactly `count` or the load fails -- it never wraps, never panics
        ensures r is Ok ==> final(weight).len == old(weight).len + count,
            r is Err ==> old(weight).len + count > usize::MAX,
//@ end
}

} // verus!
fn main() {}
