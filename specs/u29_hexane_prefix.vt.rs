// U29 hexane prefix sums -- rust/hexane/src/prefix.rs: PrefixValue for u32 / NonZeroU32        (engine V)
//
// C35 / C15: `PrefixColumn<u32>` accumulates values and run counts taken from untrusted bytes WHILE a column is being
// loaded (automerge loads the successor-count column of a document this way).  For every running total, every value
// and every run length the accumulation saturates -- exact postcondition, no precondition (D24 lived here).
use vstd::prelude::*;
verus! {
global layout usize is size == 8;

#[derive(Clone, Copy)]
pub struct Run<V> { pub count: usize, pub value: V }

pub struct ForU32;
impl ForU32 {
//@ fn rust/hexane/src/prefix.rs | impl PrefixValue for u32 | accumulate
//@   spec
        ensures *final(target) == (if *old(target) + val > u64::MAX { u64::MAX as int } else { *old(target) + val }),
//@ end
//@ fn rust/hexane/src/prefix.rs | impl PrefixValue for u32 | accumulate_run
//@   spec
        ensures *final(target) == (if *old(target) + run.value * run.count > u64::MAX { u64::MAX as int } else { *old(target) + run.value * run.count }),
//@   before /\*target/
        proof { assert(run.value as int * run.count as int >= 0) by (nonlinear_arith); }
//@ end
}
pub struct ForNonZeroU32;
impl ForNonZeroU32 {
//@ fn rust/hexane/src/prefix.rs | impl PrefixValue for std::num::NonZeroU32 | accumulate
//@   spec
        ensures *final(target) == (if *old(target) + val.get() > u64::MAX { u64::MAX as int } else { *old(target) + val.get() }),
//@ end
//@ fn rust/hexane/src/prefix.rs | impl PrefixValue for std::num::NonZeroU32 | accumulate_run
//@   spec
        ensures *final(target) == (if *old(target) + run.value.get() * run.count > u64::MAX { u64::MAX as int } else { *old(target) + run.value.get() * run.count }),
//@   before /\*target/
        proof { assert(run.value.get() as int * run.count as int >= 0) by (nonlinear_arith); }
//@ end
}

} // verus!
fn main() {}
