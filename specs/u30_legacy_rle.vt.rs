// U30 legacy RLE column decoder -- rust/automerge/src/columnar/encoding/rle.rs::RleDecoder::{try_next, done}   (engine V)
//
// C15: the decoder behind every RLE column of a CHANGE chunk (Change::from_bytes, load_incremental, sync messages).
// The raw reader is replaced by an ARBITRARY source (any i64 run header, any usize null count): one step returns
// -- a value, a null, the end or an error -- and never panics; in particular negating a literal-run header cannot
// overflow.
use vstd::prelude::*;
verus! {
global layout usize is size == 8;

// ---------------------------------------------------------------- assumed environment (trusted)
pub mod columnar { pub mod encoding {
    use vstd::prelude::*;
    verus!{
    pub enum DecodeError { FromInt(core::num::TryFromIntError), Other }
    impl vstd::std_specs::convert::FromSpecImpl<core::num::TryFromIntError> for DecodeError {
        open spec fn obeys_from_spec() -> bool { true }
        open spec fn from_spec(e: core::num::TryFromIntError) -> Self { DecodeError::FromInt(e) }
    }
    impl From<core::num::TryFromIntError> for DecodeError { fn from(e: core::num::TryFromIntError) -> Self { DecodeError::FromInt(e) } }
    }
} }
pub mod raw {
    use vstd::prelude::*;
    verus!{
    pub enum Error { Decode(crate::columnar::encoding::DecodeError), Other }
    impl vstd::std_specs::convert::FromSpecImpl<crate::columnar::encoding::DecodeError> for Error {
        open spec fn obeys_from_spec() -> bool { true }
        open spec fn from_spec(e: crate::columnar::encoding::DecodeError) -> Self { Error::Decode(e) }
    }
    impl From<crate::columnar::encoding::DecodeError> for Error { fn from(e: crate::columnar::encoding::DecodeError) -> Self { Error::Decode(e) } }
    }
}
/// std: `isize::try_from(usize)` (vstd specifies the u64 source only)
pub assume_specification[ <isize as TryFrom<usize>>::try_from ](x: usize) -> (r: Result<isize, <isize as TryFrom<usize>>::Error>)
    ensures r is Ok <==> x <= isize::MAX, r matches Ok(v) ==> v == x;
/// std: `i64::unsigned_abs`
pub assume_specification[ i64::unsigned_abs ](x: i64) -> (r: u64)
    ensures r == (if x < 0 { -x } else { x as int });
pub trait Decodable: Sized {}
impl Decodable for i64 {}
impl Decodable for usize {}
impl Decodable for u64 {}
#[verifier::external_body] pub struct RawDecoder<'a> { _p: core::marker::PhantomData<&'a ()> }
impl<'a> Clone for RawDecoder<'a> { #[verifier::external_body] fn clone(&self) -> (r: Self) ensures r == *self { unimplemented!() } }
impl<'a> RawDecoder<'a> {
    /// bytes left (abstract): every successful read consumes at least one
    pub uninterp spec fn left(&self) -> nat;
    #[verifier::external_body]
    pub fn done(&self) -> (r: bool) ensures r == (self.left() == 0) { unimplemented!() }
    /// ARBITRARY decoded value of the requested type
    #[verifier::external_body]
    pub fn read<T: Decodable>(&mut self) -> (r: Result<T, raw::Error>)
        ensures r is Ok ==> final(self).left() < old(self).left(),
            r is Err ==> final(self).left() <= old(self).left(),
    { unimplemented!() }
}
/// std: `i64::abs` panics (overflow checks on) exactly for i64::MIN
pub assume_specification[ i64::abs ](x: i64) -> (r: i64)
    requires x != i64::MIN,
    ensures r == (if x < 0 { -x } else { x as int });

// ---------------------------------------------------------------- the real code
//@ item rust/automerge/src/columnar/encoding/rle.rs | struct RleDecoder

impl<'a, T: Decodable + Clone> RleDecoder<'a, T> {
//@ fn rust/automerge/src/columnar/encoding/rle.rs | impl<T> RleDecoder<'_, T> | try_next
//@   ret r
//@   subst /T: Decodable \+ Clone \+ Debug,/ => T: Decodable + Clone,
//@   spec
        // NO precondition on what the reader yields; representation invariant of the decoder: the run counter is not negative
        requires old(self).count >= 0,
        ensures final(self).count >= 0,
//@   loop 1
            invariant self.count >= 0,
            decreases self.decoder.left(), (if self.count == 0 { 1nat } else { 0nat }),
//@ end
}

} // verus!
fn main() {}
