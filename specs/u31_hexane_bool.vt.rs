// U31 hexane bool decoder -- rust/hexane/src/bool.rs::BoolDecoder::{new, advance_run, next, nth, next_run_max, next_run}   (engine V)
//
// C35 / C15: the streaming decoder of a boolean column (alternating run counts), for ANY codec that satisfies the
// (assumed) Codec contract and any slab whose run headers decode from the decoder's position to the end of the slab
// (`decodable_from` -- what `bool_validate_encoding` establishes when a column is loaded): it never panics, never
// overflows, never reads outside the slab and TERMINATES; a run is `count` copies of the current value, values
// alternate.  WITHOUT that precondition the termination obligation fails: on a slab that ends in an undecodable count
// `advance_run` leaves `byte_pos` where it is and `next` / `next_run_max` spin forever -- one more facet of the known
// finding about unchecked decoders on bundle chunks (DESIGN section 7).
use vstd::prelude::*;
use core::marker::PhantomData;
verus! {
global layout usize is size == 8;

// ---------------------------------------------------------------- assumed environment (trusted)
/// ASSUMED contract of `Codec::read_count` (default method: read_unsigned + `as usize`; for Leb128 backed by the K
/// harnesses of U06): a successful read consumes between 1 and data.len() bytes
pub trait Codec {
    spec fn dec_count(data: Seq<u8>) -> Option<(usize, usize)>;
    proof fn dec_bounds(data: Seq<u8>)
        ensures Self::dec_count(data) matches Some((n, _)) ==> 0 < n <= data.len();
    fn read_count(data: &[u8]) -> (r: Option<(usize, usize)>)
        ensures r == Self::dec_count(data@);
}
/// the default codec (only named as the default type parameter of BoolDecoder)
pub struct Leb128;
impl Codec for Leb128 {
    uninterp spec fn dec_count(data: Seq<u8>) -> Option<(usize, usize)>;
    #[verifier::external_body] proof fn dec_bounds(data: Seq<u8>) {}
    #[verifier::external_body] fn read_count(data: &[u8]) -> (r: Option<(usize, usize)>) { unimplemented!() }
}
#[derive(Clone, Copy)]
pub struct Run<V> { pub count: usize, pub value: V }

/// every run header from offset p to the end of the slab decodes (established by the validating loader)
pub open spec fn decodable_from<C: Codec>(data: Seq<u8>, p: int) -> bool decreases data.len() - p {
    if p < 0 || p >= data.len() { true } else {
        match C::dec_count(data.subrange(p, data.len() as int)) {
            Some((cb, _)) => if 0 < cb <= data.len() - p { decodable_from::<C>(data, p + cb) } else { false },
            None => false,
        }
    }
}

//@ item rust/hexane/src/bool.rs | struct BoolDecoder

impl<'a, C: Codec> BoolDecoder<'a, C> {
    /// the decoder never points outside its slab, and the rest of the slab is a sequence of decodable run headers
    pub open spec fn wf(&self) -> bool { self.byte_pos <= self.data.len() && decodable_from::<C>(self.data@, self.byte_pos as int) }

//@ fn rust/hexane/src/bool.rs | impl<'a, C: Codec> BoolDecoder<'a, C> | new
//@   ret r
//@   spec
        requires decodable_from::<C>(data@, 0),
        ensures r.wf(), r.data == data, r.byte_pos == 0, r.remaining == 0, r.value == true,
//@ end

//@ fn rust/hexane/src/bool.rs | impl<'a, C: Codec> BoolDecoder<'a, C> | advance_run
//@   spec
        requires old(self).wf(),
        ensures final(self).wf(), final(self).data == old(self).data,
            // progress: a run header is consumed whenever the slab is not exhausted
            old(self).byte_pos < old(self).data.len() ==> final(self).byte_pos > old(self).byte_pos,
            final(self).byte_pos >= old(self).byte_pos,
            // values alternate
            final(self).byte_pos > old(self).byte_pos ==> final(self).value == !old(self).value,
//@   before /if let Some\(\(cb, count\)\) = /
        proof { C::dec_bounds(self.data@.subrange(self.byte_pos as int, self.data.len() as int)); }
//@ end

//@ fn rust/hexane/src/bool.rs | impl<'a, C: Codec> Iterator for BoolDecoder<'a, C> | next
//@   ret r
//@   spec
        requires old(self).wf(),
        ensures final(self).wf(), final(self).data == old(self).data, final(self).byte_pos >= old(self).byte_pos,
            old(self).remaining > 0 ==> r == Some(old(self).value) && final(self).remaining == old(self).remaining - 1,
//@   loop 1
            invariant self.wf(), self.data == old(self).data, self.byte_pos >= old(self).byte_pos,
                self.remaining == old(self).remaining || old(self).remaining == 0, self.remaining > 0 && old(self).remaining > 0 ==> self.value == old(self).value,
            decreases self.data.len() - self.byte_pos, (if self.remaining == 0 { 1nat } else { 0nat }),
//@ end

//@ fn rust/hexane/src/bool.rs | impl<'a, C: Codec> Iterator for BoolDecoder<'a, C> | nth
//@   ret r
//@   spec
        requires old(self).wf(),
        ensures final(self).wf(), final(self).data == old(self).data,
//@   loop 1
            invariant self.wf(), self.data == old(self).data,
            decreases self.data.len() - self.byte_pos, (if self.remaining == 0 { 1nat } else { 0nat }),
//@ end

//@ fn rust/hexane/src/bool.rs | impl<'a, C: Codec> RunDecoder for BoolDecoder<'a, C> | next_run_max
//@   ret r
//@   spec
        requires old(self).wf(),
        ensures final(self).wf(), final(self).data == old(self).data,
            r matches Some(run) ==> run.count <= max && run.count > 0 || max == 0,
            old(self).remaining > 0 ==> r == Some(Run { count: (if old(self).remaining <= max { old(self).remaining } else { max }), value: old(self).value }),
//@   loop 1
            invariant self.wf(), self.data == old(self).data,
                self.remaining == old(self).remaining || old(self).remaining == 0, self.remaining > 0 && old(self).remaining > 0 ==> self.value == old(self).value,
            decreases self.data.len() - self.byte_pos, (if self.remaining == 0 { 1nat } else { 0nat }),
//@ end
}

} // verus!
fn main() {}
