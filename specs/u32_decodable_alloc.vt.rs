// U32 length-prefixed byte strings of the legacy column decoders -- columnar/encoding/decodable_impls.rs::<Vec<u8> as Decodable>::decode   (engine V)
//
// C17: the one allocation in the change-chunk column decoders that is sized by a number read from the wire (every raw
// value, string key and actor of a change column goes through it).  The reader is an ARBITRARY source -- the decoded
// length is any usize -- and the obligation is the precondition of the allocation: at most ALLOC_BOUND (1 GiB, stated
// here, not taken from the code) whatever the input says.  C15: no panic on any input.
use vstd::prelude::*;
verus! {
global layout usize is size == 8;

/// the bound the property states ("never multi-gigabyte"), written independently of the code's constant
pub spec const ALLOC_BOUND: usize = 0x4000_0000;

// ---------------------------------------------------------------- assumed environment (trusted)
pub struct IoError;
pub enum DecodeError { Io(IoError), OverlargeAllocation { attempted: usize, maximum: usize }, BadString, Other }
impl vstd::std_specs::convert::FromSpecImpl<IoError> for DecodeError {
    open spec fn obeys_from_spec() -> bool { true }
    open spec fn from_spec(e: IoError) -> Self { DecodeError::Io(e) }
}
impl From<IoError> for DecodeError { fn from(e: IoError) -> Self { DecodeError::Io(e) } }
/// std::io::Read, the one method used
pub trait Read { fn read_exact(&mut self, buf: &mut Vec<u8>) -> (r: Result<(), IoError>) ensures final(buf).len() == old(buf).len(); }
pub trait Decodable: Sized { fn decode<R: Read>(bytes: &mut R) -> Result<Self, DecodeError>; }
/// ARBITRARY decoded length (leb128 + try_from in the real code)
impl Decodable for usize { #[verifier::external_body] fn decode<R: Read>(bytes: &mut R) -> (r: Result<usize, DecodeError>) { unimplemented!() } }
/// `vec![0; len]`: the allocation under the bound
#[verifier::external_body]
pub fn vf_alloc_zeroed(len: usize) -> (r: Vec<u8>)
    requires len <= ALLOC_BOUND,
    ensures r.len() == len,
{ unimplemented!() }

// ---------------------------------------------------------------- the real code
//@ item rust/automerge/src/columnar/encoding/decodable_impls.rs | const MAX_ALLOCATION

impl Decodable for Vec<u8> {
//@ fn rust/automerge/src/columnar/encoding/decodable_impls.rs | impl Decodable for Vec<u8> | decode
//@   ret r
//@   subst /vec!\[0; len\]/ => vf_alloc_zeroed(len)
//@   subst /bytes\.read_exact\(buffer\.as_mut_slice\(\)\)/ => bytes.read_exact(&mut buffer)
//@   spec
        ensures r matches Ok(v) ==> v.len() <= ALLOC_BOUND,
//@ end
}

} // verus!
fn main() {}
