// U33 hexane streaming delta decoder, skipping -- rust/hexane/src/delta/decoder.rs::DeltaDecoder::{nth, advance_by}   (engine V)
//
// C35: `nth(n)` of the streaming delta decoder is "skip n items, then read one": whatever runs the column is made of,
// a successful `nth(n)` leaves the decoder exactly n + 1 items further (so the value it returns is item n, and the
// running sum is the one of that position), it never underflows its counter and it terminates.  The run reader
// `next_delta_run_max` and the single-item reader `next` are ASSUMED with the contracts their bodies are written to
// (a run of at least one and at most `max` items; `next` consumes one item) over an abstract position `pos()`.
use vstd::prelude::*;
verus! {
global layout usize is size == 8;

// ---------------------------------------------------------------- assumed environment (trusted)
pub trait DeltaValue: Sized {}
pub trait Codec {}
pub struct Leb128;
impl Codec for Leb128 {}
#[derive(Clone, Copy)]
pub struct Run<V> { pub count: usize, pub value: V }
/// the decoder's fields are not read by the functions under contract: its state is the abstract position
#[verifier::external_body]
#[verifier::reject_recursive_types(T)]
#[verifier::reject_recursive_types(C)]
pub struct DeltaDecoder<'a, T: DeltaValue, C: Codec = Leb128> { _p: core::marker::PhantomData<(&'a (), T, C)> }

impl<'a, T: DeltaValue, C: Codec> DeltaDecoder<'a, T, C> {
    /// number of items consumed so far
    pub uninterp spec fn pos(&self) -> nat;
    /// ASSUMED (body: the RLE run decoder + the running-sum fold): a run of 1..=max raw deltas is consumed
    #[verifier::external_body]
    pub fn next_delta_run_max(&mut self, max: usize) -> (r: Option<Run<Option<i64>>>)
        ensures r matches Some(run) ==> 1 <= run.count && (run.count <= max || max == 0) && final(self).pos() == old(self).pos() + run.count,
    { unimplemented!() }
    /// ASSUMED (`Iterator::next`): one item is consumed
    #[verifier::external_body]
    pub fn next(&mut self) -> (r: Option<T>)
        ensures r is Some ==> final(self).pos() == old(self).pos() + 1,
    { unimplemented!() }

// ---------------------------------------------------------------- the real code
//@ fn rust/hexane/src/delta/decoder.rs | impl<T: DeltaValue, C: Codec> Iterator for DeltaDecoder<'_, T, C> | nth
//@   ret r
//@   spec
        ensures r is Some ==> final(self).pos() == old(self).pos() + n + 1,
//@   loop 1
            invariant left <= n, self.pos() == old(self).pos() + (n - left),
            decreases left,
//@ end

//@ fn rust/hexane/src/delta/decoder.rs | impl<'a, T: DeltaValue, C: Codec> DeltaDecoder<'a, T, C> | advance_by
//@   spec
        ensures true,
//@ end
}

} // verus!
fn main() {}
