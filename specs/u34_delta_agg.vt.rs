// U34 hexane delta slab aggregate while loading -- rust/hexane/src/delta/indexed.rs::IndexedDeltaWeightFn::accumulate_run   (engine V)
//
// C35 / C15: the per-slab aggregate of a delta column (item count, running total, min / max offset) is folded from
// UNTRUSTED runs while the column loads.  For every aggregate, every run count and every delta the step either fails
// with an error or advances the aggregate exactly (count, total) -- no overflow, no panic, no wrapped value (D29's
// `len += count` lived here).
use vstd::prelude::*;
verus! {
global layout usize is size == 8;

// ---------------------------------------------------------------- assumed environment (trusted)
pub enum PackError { InvalidValue(String), Other }
/// the error text (a `&str` literal `.into()` a String; strings are opaque to this Verus)
#[verifier::external_body] pub fn vf_msg() -> String { unimplemented!() }
/// `DeltaInner::to_opt` (i64: Some(v); Option<i64>: v): ARBITRARY here
pub trait DeltaInner { type Get; spec fn opt(v: Self::Get) -> Option<i64>; fn to_opt(v: Self::Get) -> (r: Option<i64>) ensures r == Self::opt(v); }

// ---------------------------------------------------------------- the real code
//@ item rust/hexane/src/btree.rs | struct SlabAgg

pub struct ForDelta<I>(core::marker::PhantomData<I>);
impl<I: DeltaInner> ForDelta<I> {
//@ fn rust/hexane/src/delta/indexed.rs | impl<I: DeltaInner, C: Codec> WeightFn<I, C> for IndexedDeltaWeightFn | accumulate_run
//@   ret r
//@   subst /I::Get<'_>/ => I::Get
//@   subst /"column length out of range"\.into\(\)/ => vf_msg()
//@   subst /"delta running sum overflows i64"\.into\(\)/ => vf_msg()
//@   subst /\|c\| v\.checked_mul\(c\)/ => |c: i64| -> (m: Option<i64>) ensures m == (if i64::MIN <= v * c <= i64::MAX { Some((v * c) as i64) } else { None::<i64> }) { v.checked_mul(c) }
//@   spec
        ensures r is Ok ==> final(w).len == old(w).len + count,
            // a null run holds the running total, a run of `count` deltas `d` moves it by exactly d * count
            r is Ok && I::opt(value) is None ==> final(w).total == old(w).total,
            r is Ok && I::opt(value) is Some ==> final(w).total == old(w).total + I::opt(value)->0 * count,
            // the offsets bracket the running total and only ever widen
            r is Ok && old(w).len > 0 ==> final(w).min_offset <= old(w).min_offset && final(w).max_offset >= old(w).max_offset,
            r is Ok && ((old(w).len == 0 && old(w).total == 0) || (old(w).len > 0 && old(w).min_offset <= old(w).total <= old(w).max_offset)) ==> final(w).min_offset <= final(w).total <= final(w).max_offset,
//@ end
}

} // verus!
fn main() {}
