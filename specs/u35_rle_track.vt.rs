// U35 hexane RLE loader bookkeeping -- rust/hexane/src/rle/load.rs::CutState::track   (engine V)
//
// C35 / C15: the per-segment slab bookkeeping of the streaming RLE loader (`Column::load*` of every RLE-encoded
// column).  The segment is ARBITRARY -- any count, any byte width a decoder could report for an input of less than
// 4 GiB -- and the bookkeeping never overflows and never panics: item counts saturate (the column loader then rejects
// the length), a value-bearing segment yields exactly its run (D29 failed here: `slab.len += count`).
use vstd::prelude::*;
use core::num::NonZeroU32;
verus! {
global layout usize is size == 8;

// ---------------------------------------------------------------- assumed environment (trusted)
#[derive(Clone, Copy)]
pub struct Run<V> { pub count: usize, pub value: V }
/// `RleSegment<'a, T>` with the generic associated type `T::Get<'a>` abstracted to a type parameter (GATs are outside this Verus)
#[derive(Clone, Copy)]
pub enum RleSegment<G> {
    Run { count: usize, value: G, bytes: usize },
    Null { count: usize, bytes: usize },
    LitHead { count: usize, bytes: usize },
    Lit { value: G, bytes: usize },
}
/// `T::get_null()`
#[verifier::external_body] pub fn vf_null<G>() -> G { unimplemented!() }
/// std: `bool::then_some`
pub assume_specification<T>[ bool::then_some ](b: bool, t: T) -> (r: Option<T>)
    ensures r == (if b { Some(t) } else { None::<T> });
/// std: `NonZeroU32::new` (generic over `ZeroablePrimitive` in this std; wrapped)
#[verifier::external_body] pub fn vf_nonzero(n: u32) -> (r: Option<NonZeroU32>) { unimplemented!() }

// ---------------------------------------------------------------- the real code
//@ item rust/hexane/src/rle/mod.rs | struct RleTail
impl core::fmt::Debug for RleTail { #[verifier::external_body] fn fmt(&self, f: &mut core::fmt::Formatter<'_>) -> core::fmt::Result { unimplemented!() } }
impl Default for RleTail { #[verifier::external_body] fn default() -> Self { unimplemented!() } }
pub mod column {
    use vstd::prelude::*;
    verus!{
//@ item rust/hexane/src/column.rs | struct Slab
    }
}
/// rle/mod.rs: `type Slab = crate::column::Slab<RleTail>;`
pub type Slab = column::Slab<RleTail>;
//@ item rust/hexane/src/rle/load.rs | struct CutState

impl CutState {
    /// what the loader maintains between segments: the slab is cut when `segments` reaches the target, literal items and
    /// segment bytes are bounded by the input length (each occupies input bytes; inputs are < 4 GiB)
    spec fn wf(&self) -> bool {
        self.slab.segments < usize::MAX && self.lit_count < u32::MAX && self.slab.tail.bytes < 0x8000_0000
    }
//@ fn rust/hexane/src/rle/load.rs | impl CutState | track
//@   ret r
//@   subst /<'a, T: RleValue>/ => <G: Copy>
//@   subst /RleSegment<'a, T>/ => RleSegment<G>
//@   subst /T::Get<'a>/ => G
//@   subst /crate::Run/ => Run
//@   subst /T::get_null\(\)/ => vf_null::<G>()
//@   subst /NonZeroU32::new\(/ => vf_nonzero(
//@   spec
        requires old(self).wf(), segment_bytes(segment) < 0x8000_0000,
        ensures
            // a value-bearing segment yields exactly its run; headers and empty runs yield nothing
            segment matches RleSegment::Run { count, value, .. } ==> (if count > 0 { r == Some(Run { count, value }) } else { r is None }),
            segment matches RleSegment::Lit { value, .. } ==> r == Some(Run { count: 1usize, value }),
            segment is LitHead ==> r is None && final(self).slab.len == old(self).slab.len,
            segment matches RleSegment::Null { count, .. } ==> (r is Some <==> count > 0),
            // the item count is the saturating sum
            segment matches RleSegment::Run { count, .. } ==> final(self).slab.len == (if old(self).slab.len + count > usize::MAX { usize::MAX as int } else { old(self).slab.len + count }),
            segment matches RleSegment::Null { count, .. } ==> final(self).slab.len == (if old(self).slab.len + count > usize::MAX { usize::MAX as int } else { old(self).slab.len + count }),
            !(segment is LitHead) ==> final(self).slab.segments == old(self).slab.segments + 1,
//@ end
}
pub open spec fn segment_bytes<G>(s: RleSegment<G>) -> usize {
    match s { RleSegment::Run { bytes, .. } => bytes, RleSegment::Null { bytes, .. } => bytes, RleSegment::LitHead { bytes, .. } => bytes, RleSegment::Lit { bytes, .. } => bytes }
}

} // verus!
fn main() {}
