// U36 hexane bool column loader -- rust/hexane/src/bool.rs::BoolLoadIter::{new, cut_slab, try_next_run, finalize}, BoolEncoding::fill   (engine V)
//
// C35 / C15: the streaming loader of a boolean column (alternating run counts, UNTRUSTED bytes), for ANY codec that
// satisfies the (assumed) `read_count` contract and any `max_segments`: one step returns a run, the end or an error
// and never panics -- no read outside the input, no overflow on any count -- and it keeps the invariant the format
// depends on: every slab it cuts starts on a FALSE run (the slab-relative run index has the parity of the column run
// index), because the cut target is even.  The run it yields has the value of its position.
use vstd::prelude::*;
use core::marker::PhantomData;
verus! {
global layout usize is size == 8;

// ---------------------------------------------------------------- assumed environment (trusted)
/// ASSUMED contract of `Codec::read_count` (for Leb128 backed by the K harnesses of U06): a successful read consumes
/// between 1 and data.len() bytes
pub trait Codec {
    spec fn dec_count(data: Seq<u8>) -> Option<(usize, usize)>;
    proof fn dec_bounds(data: Seq<u8>)
        ensures Self::dec_count(data) matches Some((n, _)) ==> 0 < n <= data.len() && n <= 10;
    fn read_count(data: &[u8]) -> (r: Option<(usize, usize)>)
        ensures r == Self::dec_count(data@);
    /// the bytes `encode_count(n)` produces: between 1 and 10, and `read_count` reads them back (ASSUMED; for Leb128
    /// backed by K u06_leb_unsigned_roundtrip)
    spec fn enc(n: usize) -> Seq<u8>;
    proof fn enc_bounds(n: usize, rest: Seq<u8>)
        ensures 1 <= Self::enc(n).len() <= 10, Self::dec_count(Self::enc(n) + rest) == Some((Self::enc(n).len() as usize, n));
}
pub struct Leb128;
impl Codec for Leb128 {
    uninterp spec fn dec_count(data: Seq<u8>) -> Option<(usize, usize)>;
    uninterp spec fn enc(n: usize) -> Seq<u8>;
    #[verifier::external_body] proof fn enc_bounds(n: usize, rest: Seq<u8>) {}
    #[verifier::external_body] proof fn dec_bounds(data: Seq<u8>) {}
    #[verifier::external_body] fn read_count(data: &[u8]) -> (r: Option<(usize, usize)>) { unimplemented!() }
}
#[derive(Clone, Copy)]
pub struct Run<V> { pub count: usize, pub value: V }
pub enum PackError { BadFormat, Other }
/// `data.extend(C::encode_count(n))` (VarBuf is an iterator of its bytes)
#[verifier::external_body]
pub fn vf_extend_count<C: Codec>(data: &mut Vec<u8>, n: usize)
    ensures final(data)@ == old(data)@ + C::enc(n),
{ unimplemented!() }
/// `data[a..b].to_vec()`: panics unless a <= b <= len
#[verifier::external_body]
pub fn vf_range_to_vec(data: &[u8], a: usize, b: usize) -> (r: Vec<u8>)
    requires a <= b <= data.len(),
    ensures r@ == data@.subrange(a as int, b as int),
{ unimplemented!() }

pub mod column {
    use vstd::prelude::*;
    verus!{
//@ item rust/hexane/src/column.rs | struct Slab
    }
}
/// bool.rs: `type Slab = crate::column::Slab<u8>;`
pub type Slab = column::Slab<u8>;

// ---------------------------------------------------------------- the real code
//@ item rust/hexane/src/bool.rs | struct BoolLoadIter

impl<'a, C: Codec> BoolLoadIter<'a, C> {
    pub open spec fn wf(&self) -> bool {
        &&& self.slab_start <= self.pos <= self.data.len()
        &&& self.run_index <= self.pos
        &&& self.target_segments >= 2 && self.target_segments % 2 == 0
        &&& self.slab_segs < self.target_segments
        // every slab starts on a false run
        &&& self.slab_segs % 2 == self.run_index % 2
        &&& self.slab_segs <= self.run_index
    }

//@ fn rust/hexane/src/bool.rs | impl<'a, C: Codec> BoolLoadIter<'a, C> | new
//@   ret r
//@   spec
        ensures r.wf(), r.data == data, r.pos == 0, r.run_index == 0, r.target_segments <= max_segments || max_segments < 4,
//@   before /^\s*Self \{/
        proof { assert(((max_segments / 2) & !1usize) % 2 == 0 && ((max_segments / 2) & !1usize) <= max_segments / 2) by (bit_vector); }
//@ end

//@ fn rust/hexane/src/bool.rs | impl<'a, C: Codec> BoolLoadIter<'a, C> | cut_slab
//@   subst /self\.data\[self\.slab_start\.\.self\.pos\]\.to_vec\(\)/ => vf_range_to_vec(self.data, self.slab_start, self.pos)
//@   spec
        requires old(self).slab_start <= old(self).pos <= old(self).data.len(),
        ensures final(self).slab_segs == 0, final(self).slab_items == 0, final(self).slab_start == old(self).pos,
            final(self).pos == old(self).pos, final(self).run_index == old(self).run_index, final(self).data == old(self).data,
            final(self).target_segments == old(self).target_segments,
            final(self).slabs@.len() == old(self).slabs@.len() + 1,
            final(self).slabs@.last().segments == old(self).slab_segs, final(self).slabs@.last().len == old(self).slab_items,
            final(self).slabs@.last().tail == old(self).tail, final(self).tail == old(self).tail,
//@ end

//@ fn rust/hexane/src/bool.rs | impl<'a, C: Codec> BoolLoadIter<'a, C> | try_next_run
//@   ret r
//@   spec
        requires old(self).wf(),
        // (after an error the iterator is spent: the untrusted-count error leaves the run index ahead of the slab count)
        ensures r is Ok ==> final(self).wf(),
            final(self).data == old(self).data, final(self).pos >= old(self).pos,
            final(self).target_segments == old(self).target_segments,
            // a run is never empty, was read from the input, and carries the value of its position (runs alternate from false)
            r matches Ok(Some(run)) ==> run.count > 0 && final(self).pos > old(self).pos && run.value == ((final(self).run_index - 1) % 2 == 1),
            r matches Ok(None) ==> final(self).pos >= final(self).data.len(),
            // `tail` is the width of the header of the run just returned, and a slab cut by this step closes on that header
            r matches Ok(Some(run)) ==> final(self).tail as int <= final(self).pos - old(self).pos
                && C::dec_count(final(self).data@.subrange(final(self).pos - final(self).tail as int, final(self).data.len() as int)) == Some((final(self).tail as usize, run.count)),
            r is Ok ==> (final(self).slabs@.len() == old(self).slabs@.len()
                || (final(self).slabs@.len() == old(self).slabs@.len() + 1 && final(self).slabs@.last().tail == final(self).tail)),
//@   loop 1
            invariant self.wf(), self.data == old(self).data, self.pos >= old(self).pos, self.target_segments == old(self).target_segments,
                self.slabs@.len() == old(self).slabs@.len(),
            decreases self.data.len() - self.pos,
//@   before /let \(cb, count\) = /
            proof { C::dec_bounds(self.data@.subrange(self.pos as int, self.data.len() as int)); }
//@ end

//@ fn rust/hexane/src/bool.rs | impl<'a, C: Codec> BoolLoadIter<'a, C> | finalize
//@   ret r
//@   subst /finalize\(mut self\)/ => finalize(self)
//@   subst /std::mem::take\(&mut self\.slabs\)/ => self.slabs
//@   subst /data\[slab_start\.\.pos\]\.to_vec\(\)/ => vf_range_to_vec(data, slab_start, pos)
//@   spec
        // the drain that every plain `Column::<bool>::load` goes through: total on the rest of the (untrusted) input --
        // no read outside it, no overflow on any count, termination -- and it keeps cutting on even run counts
        requires self.wf(),
        ensures r matches Ok(slabs) ==> slabs@.len() >= self.slabs@.len(),
//@   loop 1
            invariant slab_start <= pos <= data.len(), run_index <= pos, data == self.data,
                target_segments >= 2 && target_segments % 2 == 0, slab_segs < target_segments,
                slab_segs % 2 == run_index % 2, slab_segs <= run_index,
                slabs@.len() >= self.slabs@.len(),
            decreases data.len() - pos,
//@   before /let \(cb, count\) = /
            proof { C::dec_bounds(data@.subrange(pos as int, data.len() as int)); }
//@ end
}

/// number of run headers in a bool slab's bytes (what the loader counts as `segments`)
pub open spec fn headers<C: Codec>(data: Seq<u8>) -> nat decreases data.len() {
    if data.len() == 0 { 0 } else {
        match C::dec_count(data) {
            Some((cb, _)) => if 0 < cb <= data.len() { 1 + headers::<C>(data.subrange(cb as int, data.len() as int)) } else { 0 },
            None => 0,
        }
    }
}
pub struct ForBoolEncoding<C>(PhantomData<C>);
impl<C: Codec> ForBoolEncoding<C> {
//@ fn rust/hexane/src/bool.rs | impl<C: Codec> ColumnEncoding for BoolEncoding<C> | fill
//@   ret r
//@   subst /data\.extend\(C::encode_count\(0\)\)/ => vf_extend_count::<C>(&mut data, 0)
//@   subst /data\.extend\(C::encode_count\(len\)\)/ => vf_extend_count::<C>(&mut data, len)
//@   spec
        // a fill slab is what the loader would have produced for the same bytes: `len` items, starting on a false run
        // (a zero-count pad in front of a true run), ONE SEGMENT PER RUN HEADER, and the tail is the last header's width
        ensures r.len == len,
            r.data@ == (if value { C::enc(0) } else { Seq::<u8>::empty() }) + C::enc(len),
            r.segments == headers::<C>(r.data@),
            r.tail == C::enc(len).len(),
//@   before /^\s*Slab \{/
        proof {
            C::enc_bounds(len, Seq::<u8>::empty());
            assert(C::enc(len) + Seq::<u8>::empty() =~= C::enc(len));
            assert(C::enc(len).subrange(C::enc(len).len() as int, C::enc(len).len() as int) =~= Seq::<u8>::empty());
            reveal_with_fuel(headers, 3);
            if value {
                C::enc_bounds(0, C::enc(len));
                assert((C::enc(0) + C::enc(len)).subrange(C::enc(0).len() as int, (C::enc(0) + C::enc(len)).len() as int) =~= C::enc(len));
                assert(data@ =~= C::enc(0) + C::enc(len));
            } else {
                assert(data@ =~= C::enc(len));
            }
        }
//@ end
}

} // verus!
fn main() {}
