// U37 read-only sync: receiving never changes the document -- rust/automerge/src/sync.rs::receive_sync_message_inner,
// sync/state.rs::State::set_read_only   (engine V)
//
// C22 (first clause, as a frame condition): while `sync_state.read_only` holds on entry, `receive_sync_message_inner`
// returns with the document EQUAL to the document it was called with -- for every message and every state.  The only
// `&mut self` callee of the body is `load_incremental_log_patches`, which is given NO postcondition (it may change
// anything); every other callee takes `&self`.  So the obligation is exactly "the call that applies incoming changes
// is not reachable while read-only".  Also: an `Err` can only come out with the document untouched in that mode.
// The iterator chains of the body (head sets) are replaced by trusted wrappers that take the document by `&`.
use vstd::prelude::*;
verus! {

// ---------------------------------------------------------------- assumed environment (trusted)
//@ item rust/automerge/src/types.rs | const HASH_SIZE
//@ item rust/automerge/src/types.rs | struct ChangeHash
#[verifier::external_body] #[verifier::reject_recursive_types(T)] pub struct BTreeSet<T> { _p: core::marker::PhantomData<T> }
impl<T> BTreeSet<T> {
    pub uninterp spec fn view(&self) -> Set<T>;
    #[verifier::external_body] pub fn new() -> (r: Self) ensures r.view() == Set::<T>::empty() { unimplemented!() }
    #[verifier::external_body] pub fn clear(&mut self) ensures final(self).view() == Set::<T>::empty() { unimplemented!() }
}
impl<T> Clone for BTreeSet<T> { #[verifier::external_body] fn clone(&self) -> (r: Self) ensures r == *self { unimplemented!() } }
impl<T> PartialEq for BTreeSet<T> { #[verifier::external_body] fn eq(&self, o: &Self) -> bool { unimplemented!() } }
impl<T> Eq for BTreeSet<T> {}
#[verifier::external_body] pub struct BloomFilter { _p: () }
impl PartialEq for BloomFilter { #[verifier::external_body] fn eq(&self, o: &Self) -> bool { unimplemented!() } }
impl Eq for BloomFilter {}
impl Clone for BloomFilter { #[verifier::external_body] fn clone(&self) -> (r: Self) ensures r == *self { unimplemented!() } }
#[verifier::external_body] pub struct AutomergeError { _p: () }
#[verifier::external_body] pub struct PatchLog { _p: () }
#[verifier::external_body] pub struct MessageVersion { _p: () }
impl PartialEq for MessageVersion { #[verifier::external_body] fn eq(&self, o: &Self) -> bool { unimplemented!() } }
impl Clone for MessageVersion { #[verifier::external_body] fn clone(&self) -> (r: Self) ensures r == *self { unimplemented!() } }
//@ item rust/automerge/src/sync.rs | enum Capability
//@ item rust/automerge/src/sync/state.rs | struct Have
//@ item rust/automerge/src/sync/state.rs | struct State
//@ item rust/automerge/src/sync.rs | struct Message

/// bitflags `MessageFlags` (round trip proved in U05v): only `contains` is used here
#[derive(Clone, Copy)]
pub struct MessageFlags { pub bits: u8 }
impl PartialEq for MessageFlags { #[verifier::external_body] fn eq(&self, o: &Self) -> bool { unimplemented!() } }
impl MessageFlags {
    pub const SUPPORTS_SYNC_RESET: MessageFlags = MessageFlags { bits: 1 };
    pub const SYNC_RESET: MessageFlags = MessageFlags { bits: 2 };
    pub const READ_ONLY: MessageFlags = MessageFlags { bits: 4 };
    pub uninterp spec fn has(&self, o: MessageFlags) -> bool;
    #[verifier::external_body] pub fn contains(&self, o: MessageFlags) -> (r: bool) ensures r == self.has(o) { unimplemented!() }
}
/// `ChunkList(Vec<Vec<u8>>)`
pub struct ChunkList(pub Vec<Vec<u8>>);
impl PartialEq for ChunkList { #[verifier::external_body] fn eq(&self, o: &Self) -> bool { unimplemented!() } }
impl Clone for ChunkList { #[verifier::external_body] fn clone(&self) -> (r: Self) ensures r == *self { unimplemented!() } }
impl ChunkList {
    #[verifier::external_body] pub fn is_empty(&self) -> bool { unimplemented!() }
    #[verifier::external_body] pub fn join(&self) -> Vec<u8> { unimplemented!() }
}

/// the document: opaque; equality of two values is equality of everything in them
#[verifier::external_body] pub struct Automerge { _p: () }
impl Automerge {
    #[verifier::external_body] pub fn get_heads(&self) -> Vec<ChangeHash> { unimplemented!() }
    #[verifier::external_body] pub fn has_change(&self, h: &ChangeHash) -> bool { unimplemented!() }
    /// removes hashes (the ancestors of the heads the document knows) from `changes`, never adds one
    #[verifier::external_body] pub fn filter_changes(&self, heads: &[ChangeHash], changes: &mut BTreeSet<ChangeHash>) -> (r: Result<(), AutomergeError>)
        ensures final(changes).view().subset_of(old(changes).view()) { unimplemented!() }
    /// the ONLY mutating callee: no postcondition, it may change anything
    #[verifier::external_body] pub fn load_incremental_log_patches(&mut self, data: &[u8], log: &mut PatchLog) -> Result<usize, AutomergeError> { unimplemented!() }
}
/// `advance_heads(&before.iter().collect(), &self.get_heads().into_iter().collect(), &shared)` (hash-set building iterator chains)
#[verifier::external_body] pub fn vf_advance_heads(before: &Vec<ChangeHash>, now: Vec<ChangeHash>, shared: &Vec<ChangeHash>) -> Vec<ChangeHash> { unimplemented!() }
/// `message_heads.iter().filter(|head| self.has_change(head)).collect::<Vec<_>>()` -- reads the document by `&`
#[verifier::external_body] pub fn vf_known_heads<'a>(doc: &Automerge, heads: &'a Vec<ChangeHash>) -> Vec<&'a ChangeHash> { unimplemented!() }
/// `shared_heads.iter().chain(known).copied().unique().sorted().collect()`
#[verifier::external_body] pub fn vf_merge_heads(shared: &Vec<ChangeHash>, known: Vec<&ChangeHash>) -> Vec<ChangeHash> { unimplemented!() }
/// `State::default()` (derived)
#[verifier::external_body] pub fn vf_state_default() -> State { unimplemented!() }
/// `a == b` on head lists
#[verifier::external_body] pub fn vf_heads_eq(a: &Vec<ChangeHash>, b: &Vec<ChangeHash>) -> bool { unimplemented!() }
/// `Vec::clone` on head lists
#[verifier::external_body] pub fn vf_heads_clone(a: &Vec<ChangeHash>) -> Vec<ChangeHash> { unimplemented!() }

// ---------------------------------------------------------------- the real code
impl State {
//@ fn rust/automerge/src/sync/state.rs | impl State | set_read_only
//@   subst /\.\.Default::default\(\)/ => ..vf_state_default()
//@   spec
        ensures final(self).read_only == read_only,
            // C22 (third clause, mechanism): leaving read-only mode arms the reset that makes the peer resend what was skipped
            old(self).read_only && !read_only ==> final(self).needs_reset && final(self).their_capabilities == old(self).their_capabilities,
            // entering it (or a no-op) keeps what is known about the peer
            !(old(self).read_only && !read_only) ==> final(self).shared_heads == old(self).shared_heads && final(self).sent_hashes == old(self).sent_hashes
                && final(self).needs_reset == old(self).needs_reset,
//@ end
}

impl Automerge {
//@ fn rust/automerge/src/sync.rs | impl Automerge | receive_sync_message_inner
//@   ret r
//@   subst /advance_heads\(\s*&before_heads\.iter\(\)\.collect\(\),\s*&self\.get_heads\(\)\.into_iter\(\)\.collect\(\),\s*&sync_state\.shared_heads,\s*\)/ => vf_advance_heads(&before_heads, self.get_heads(), &sync_state.shared_heads)
//@   subst /message_heads == before_heads/ => vf_heads_eq(&message_heads, &before_heads)
//@   subst /sync_state\.last_sent_heads\.clone_from\(&message_heads\)/ => sync_state.last_sent_heads = vf_heads_clone(&message_heads)
//@   subst /sync_state\.shared_heads\.clone_from\(&message_heads\)/ => sync_state.shared_heads = vf_heads_clone(&message_heads)
//@   subst /message_heads\s*\.iter\(\)\s*\.filter\(\|head\| self\.has_change\(head\)\)\s*\.collect::<Vec<_>>\(\)/ => vf_known_heads(&*self, &message_heads)
//@   subst /sync_state\s*\.shared_heads\s*\.iter\(\)\s*\.chain\(known_heads\)\s*\.copied\(\)\s*\.unique\(\)\s*\.sorted\(\)\s*\.collect::<Vec<_>>\(\)/ => vf_merge_heads(&sync_state.shared_heads, known_heads)
//@   subst /sync_state\.last_sent_heads = Default::default\(\)/ => sync_state.last_sent_heads = Vec::new()
//@   subst /sync_state\.sent_hashes = Default::default\(\)/ => sync_state.sent_hashes = BTreeSet::new()
//@   spec
        ensures
            // C22: a read-only peer's document is the document it had -- whatever the message, whatever the outcome
            old(sync_state).read_only ==> *final(self) == *old(self),
            // receiving does not flip the mode
            final(sync_state).read_only == old(sync_state).read_only,
            // C22 (third clause, mechanism): a SYNC_RESET request is honoured whatever else the message says -- the receiver
            // forgets everything it believes it has sent, so the changes the requester skipped are sent again
            r is Ok && (message.flags matches Some(f) && f.has(MessageFlags::SYNC_RESET)) ==> final(sync_state).sent_hashes.view() == Set::<ChangeHash>::empty(),
//@ end
}

} // verus!
fn main() {}
