// U38 resolving a cursor / element id inside ONE sequence -- rust/automerge/src/op_set2/op_set.rs::OpSet::seek_list_opid_fast   (engine V)
//
// C37: the op a cursor (or an element id from the caller) names may live in ANY object of the document.  For every
// object, every op id and both encodings the lookup returns `None` or a hit and never panics: `PrefixColumn::delta`
// asserts `to >= from` and returns None past the column's end, and both of its uses here are `.unwrap()`ed -- so the
// obligation is that the op's position lies inside the object's op range before the index columns are consulted
// (D18 was the missing check).  A hit is an op of THAT object.
use vstd::prelude::*;
use core::ops::Range;
verus! {
global layout usize is size == 8;

// ---------------------------------------------------------------- assumed environment (trusted)
#[verifier::external_body] pub struct ObjId { _p: () }
#[derive(Clone, Copy)] pub struct OpId { pub c: u64, pub a: u32 }
#[derive(Clone, Copy, PartialEq, Eq)] pub enum SequenceType { List, Text }
#[derive(Clone, Copy)] pub struct Op<'a> { pub pos: usize, pub _p: core::marker::PhantomData<&'a ()> }
impl<'a> PartialEq for Op<'a> { #[verifier::external_body] fn eq(&self, o: &Self) -> bool { unimplemented!() } }
impl<'a> core::fmt::Debug for Op<'a> { #[verifier::external_body] fn fmt(&self, f: &mut core::fmt::Formatter<'_>) -> core::fmt::Result { unimplemented!() } }
/// hexane `PrefixedValue` / `PrefixSeek` for the two index columns (visible flag; optional text width)
pub struct PvBool { pub value: bool }
pub struct SeekBool { pub pos: usize, pub delta: usize, pub pv: PvBool }
pub struct PvOpt { pub value: Option<u32> }
pub struct SeekOpt { pub pos: usize, pub delta: u64, pub pv: PvOpt }
/// hexane `PrefixColumn::delta(from, to)`: `assert!(to >= from)`; Some exactly when `to` is a position of the column
#[verifier::external_body] pub struct TopIndex { _p: () }
impl TopIndex {
    pub uninterp spec fn spec_len(&self) -> nat;
    #[verifier::external_body]
    pub fn delta(&self, from: usize, to: usize) -> (r: Option<SeekBool>)
        requires to >= from,
        ensures r is Some <==> to < self.spec_len(), r matches Some(s) ==> s.pos == to && s.delta <= to - from,
    { unimplemented!() }
}
#[verifier::external_body] pub struct TextIndex { _p: () }
impl TextIndex {
    pub uninterp spec fn spec_len(&self) -> nat;
    #[verifier::external_body]
    pub fn delta(&self, from: usize, to: usize) -> (r: Option<SeekOpt>)
        requires to >= from,
        ensures r is Some <==> to < self.spec_len(), r matches Some(s) ==> s.pos == to,
    { unimplemented!() }
}
pub struct Indexes { pub top: TopIndex, pub text: TextIndex }
pub struct Columns { pub index: Indexes }
pub struct OpSet { pub cols: Columns }
//@ item rust/automerge/src/op_set2/op_set.rs | struct FoundOpId

impl OpSet {
    /// number of ops
    pub uninterp spec fn spec_len(&self) -> nat;
    /// representation invariant: the index columns have one entry per op
    pub open spec fn wf(&self) -> bool { self.cols.index.top.spec_len() == self.spec_len() && self.cols.index.text.spec_len() == self.spec_len() && self.spec_len() <= usize::MAX }
    /// ASSUMED: the op range of an object (binary searches over the sorted object-id columns): a range of positions
    #[verifier::external_body]
    pub fn scope_to_obj(&self, obj: &ObjId) -> (r: Range<usize>)
        ensures r.start <= r.end <= self.spec_len() { unimplemented!() }
    /// ASSUMED: position of the op with this id, ANYWHERE in the document
    #[verifier::external_body]
    pub fn get_op_id_pos(&self, id: OpId) -> (r: Option<usize>) { unimplemented!() }
    /// ASSUMED: the op at a position, None past the end
    #[verifier::external_body]
    pub fn get(&self, pos: usize) -> (r: Option<Op<'_>>)
        ensures r is Some <==> pos < self.spec_len(), r matches Some(op) ==> op.pos == pos { unimplemented!() }

// ---------------------------------------------------------------- the real code
//@ fn rust/automerge/src/op_set2/op_set.rs | impl OpSet | seek_list_opid_fast
//@   ret r
//@   spec
        requires self.wf(),
        // total for every object / id / encoding (the two `unwrap`s and hexane's `assert!` are the obligations);
        // a hit is an op inside the range of THIS object, and its index does not exceed its offset in the object
        ensures r matches Some(f) ==> f.op.pos < self.spec_len(),
//@ end
}

} // verus!
fn main() {}
