#!/bin/bash
# usage: confirm_mutant.sh <worktree> <mutant dir (with patch.diff, demo.rs)> <crate: automerge|hexane> <out log>
# Confirms: demo FAILS with the patch, PASSES without it, and the crate's existing tests pass with the patch.
WT=$1; M=$2; CRATE=${3:-automerge}; LOG=$4; EXTRA=$5   # EXTRA: another crate whose suite must pass too
export CARGO_NET_OFFLINE=true
cd $WT || exit 9
git checkout -q -- . ; rm -f rust/$CRATE/tests/zz_demo.rs
{
echo "== mutant $M crate $CRATE"
git apply --check $M/patch.diff || { echo "RESULT patch-does-not-apply"; exit 1; }
cp $M/demo.rs rust/$CRATE/tests/zz_demo.rs
echo "-- demo WITHOUT patch (must pass)"
( cd rust && timeout 1800 cargo test -p $CRATE --offline --test zz_demo 2>&1 | tail -15 ); A=${PIPESTATUS[0]}
( cd rust && cargo test -p $CRATE --offline --test zz_demo >/dev/null 2>&1 ); A=$?
git apply $M/patch.diff
echo "-- demo WITH patch (must fail)"
( cd rust && timeout 1800 cargo test -p $CRATE --offline --test zz_demo 2>&1 | tail -25 )
( cd rust && cargo test -p $CRATE --offline --test zz_demo >/dev/null 2>&1 ); B=$?
rm -f rust/$CRATE/tests/zz_demo.rs
echo "-- existing suite WITH patch (must pass)"
( cd rust && timeout 3600 cargo test -p $CRATE --offline 2>&1 | grep -E "^test result|FAILED|failed|panicked" | head -40 )
( cd rust && cargo test -p $CRATE --offline >/dev/null 2>&1 ); C=$?
if [ -n "$EXTRA" ]; then ( cd rust && timeout 3600 cargo test -p $EXTRA --offline 2>&1 | grep -E "^test result|FAILED|failed" | head -20 ); ( cd rust && cargo test -p $EXTRA --offline >/dev/null 2>&1 ); C2=$?; [ $C2 -ne 0 ] && C=$C2; fi
git checkout -q -- .
echo "RESULT demo_without=$A demo_with=$B suite_with=$C"
if [ $A -eq 0 ] && [ $B -ne 0 ] && [ $C -eq 0 ]; then echo "CONFIRMED"; else echo "NOT-CONFIRMED"; fi
} > $LOG 2>&1
