#!/bin/bash
# run every registered quick (or $1=thorough) check on /repo; summary at the end
cd /verif
TIER=${1:-quick}
for p in $(python3 -c "import json;print(' '.join(c['property_id'] for c in json.load(open('MANIFEST.json'))['checks']))"); do
  /usr/bin/time -f "$p wall=%es" ./verif check $p --tier $TIER 2>&1 | tail -4
  echo "$p rc=${PIPESTATUS[0]}"
done
