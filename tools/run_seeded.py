#!/usr/bin/env python3
"""Run the quick checks against each seeded change on a scratch copy of /repo.
For every change: copy /repo (outside /repo and /verif), apply patch.diff, run the property's quick check
with VERIF_REPO pointing at the copy and VERIF_OUT at a scratch output directory, remove the copy.
The checks are run from a SNAPSHOT of /verif (so that editing /verif meanwhile cannot disturb them);
--workers N runs N snapshots in parallel (each with its own kani build cache and scratch paths).
usage: run_seeded.py [--workers N] [--only-missing] [dir-name ...]     results: /verif/seeded/RESULTS.json"""
import fcntl
import json
import os
import shutil
import subprocess
import sys
import time

SEEDED = "/verif/seeded"
respath = os.path.join(SEEDED, "RESULTS.json")


def save(n, rec):
    with open(respath + ".lock", "w") as lk:
        fcntl.flock(lk, fcntl.LOCK_EX)
        results = json.load(open(respath)) if os.path.exists(respath) else {}
        results[n] = rec
        json.dump(results, open(respath, "w"), indent=1, sort_keys=True)


def worker(wid, names):
    snap = "/tmp/verif-snap%d" % wid
    copy = "/tmp/verif-seeded-repo%d" % wid
    out = "/tmp/verif-seeded-out%d" % wid
    shutil.rmtree(snap, ignore_errors=True)
    rs = subprocess.run(["rsync", "-a", "--exclude", ".git", "--exclude", "seeded", "--exclude", "design_probes",
                         "--exclude", ".cache/kres", "/verif/", snap + "/"])
    if rs.returncode not in (0, 24):   # 24: a cache file vanished while copying (another run is using the live cache)
        raise SystemExit("snapshot rsync failed: %d" % rs.returncode)
    # private scratch paths for this snapshot
    k = os.path.join(snap, "lib", "krun.py")
    t = open(k).read().replace('SCRATCH = "/tmp/verif-scratch"', 'SCRATCH = "/tmp/verif-scratch-w%d"' % wid)
    open(k, "w").write(t)
    v = os.path.join(snap, "verif")
    t = open(v).read().replace('WORK = "/tmp/verif-vwork"', 'WORK = "/tmp/verif-vwork-w%d"' % wid)
    open(v, "w").write(t)
    for n in names:
        d = os.path.join(SEEDED, n)
        meta = json.load(open(os.path.join(d, "meta.json")))
        props = meta.get("check_properties") or [meta["property"]]
        shutil.rmtree(copy, ignore_errors=True)
        os.makedirs(copy)
        subprocess.run(["rsync", "-a", "--exclude", "target", "--exclude", "node_modules", "--exclude", "javascript",
                        "--exclude", ".git", "/repo/", copy + "/"], check=True)
        ap = subprocess.run(["patch", "-p1", "--no-backup-if-mismatch", "-i", os.path.join(d, "patch.diff")],
                            cwd=copy, capture_output=True, text=True)
        if ap.returncode != 0:
            save(n, {"applied": False, "err": (ap.stdout + ap.stderr)[-400:]})
            print(n, "PATCH DOES NOT APPLY", flush=True)
            continue
        res = {}
        env = dict(os.environ, VERIF_REPO=copy, VERIF_OUT=out, VERIF_NO_REPLAY="1")
        for p in props:
            t0 = time.time()
            r = subprocess.run(["./verif", "check", p, "--tier", "quick"], cwd=snap, capture_output=True, text=True, env=env)
            lines = [l for l in r.stdout.split("\n") if l.startswith(("VIOLATION", "TOOL-FAILURE", "KNOWN-FINDING"))]
            res[p] = {"rc": r.returncode, "lines": [l[:500] for l in lines], "wall_s": round(time.time() - t0, 1)}
            print("w%d" % wid, n, p, "rc=%d" % r.returncode, [l[:200] for l in lines[:2]], flush=True)
        det = any(v["rc"] == 1 for v in res.values())
        save(n, {"applied": True, "checks": res, "detected": det,
                 "tool_failure_only": (not det) and any(v["rc"] == 2 for v in res.values())})
    shutil.rmtree(copy, ignore_errors=True)


if __name__ == "__main__":
    a = sys.argv[1:]
    nw = 1
    if "--workers" in a:
        i = a.index("--workers")
        nw = int(a[i + 1])
        del a[i:i + 2]
    only_missing = "--only-missing" in a
    a = [x for x in a if x != "--only-missing"]
    names = a or sorted(d for d in os.listdir(SEEDED) if os.path.isdir(os.path.join(SEEDED, d)))
    if only_missing and os.path.exists(respath):
        done = json.load(open(respath))
        names = [n for n in names if n not in done]
    parts = [names[i::nw] for i in range(nw)]
    pids = []
    base = int(os.environ.get("SEEDED_WID_BASE", "0"))   # lets a second invocation run beside a first one
    for w, part in enumerate(parts):
        pid = os.fork()
        if pid == 0:
            worker(base + w, part)
            os._exit(0)
        pids.append(pid)
    for pid in pids:
        os.waitpid(pid, 0)
