#!/usr/bin/env python3
"""Run the quick checks against each seeded change on a scratch copy of /repo (the copy is made
outside /repo and /verif, patched, checked with VERIF_REPO pointing at it, and removed).
usage: run_seeded.py [dir-name ...]   (default: all under /verif/seeded)
Writes /verif/seeded/RESULTS.json."""
import json, os, shutil, subprocess, sys, time
SEEDED = "/verif/seeded"
COPY = "/tmp/verif-seeded-repo"
OUT = "/tmp/verif-seeded-out"
names = sys.argv[1:] or sorted(d for d in os.listdir(SEEDED) if os.path.isdir(os.path.join(SEEDED, d)))
respath = os.path.join(SEEDED, "RESULTS.json")
for n in names:
    results = json.load(open(respath)) if os.path.exists(respath) else {}
    d = os.path.join(SEEDED, n)
    meta = json.load(open(os.path.join(d, "meta.json")))
    props = meta.get("check_properties") or [meta["property"]]
    shutil.rmtree(COPY, ignore_errors=True)
    os.makedirs(COPY)
    subprocess.run(["rsync", "-a", "--exclude", "target", "--exclude", "node_modules", "--exclude", "javascript", "--exclude", ".git", "/repo/", COPY + "/"], check=True)
    ap = subprocess.run(["patch", "-p1", "--no-backup-if-mismatch", "-i", os.path.join(d, "patch.diff")], cwd=COPY, capture_output=True, text=True)
    if ap.returncode != 0:
        results[n] = {"applied": False, "err": (ap.stdout + ap.stderr)[-400:]}
        json.dump(results, open(respath, "w"), indent=1)
        print(n, "PATCH DOES NOT APPLY", ap.stdout[-200:]); continue
    out = {}
    env = dict(os.environ, VERIF_REPO=COPY, VERIF_OUT=OUT)
    for p in props:
        t0 = time.time()
        r = subprocess.run(["./verif", "check", p, "--tier", "quick"], cwd="/verif", capture_output=True, text=True, env=env)
        lines = [l for l in r.stdout.split("\n") if l.startswith(("VIOLATION", "TOOL-FAILURE", "KNOWN-FINDING"))]
        out[p] = {"rc": r.returncode, "lines": [l[:500] for l in lines], "wall_s": round(time.time() - t0, 1)}
        print(n, p, "rc=%d" % r.returncode, [l[:300] for l in lines[:2]], flush=True)
    results = json.load(open(respath)) if os.path.exists(respath) else {}
    results[n] = {"applied": True, "checks": out, "detected": any(v["rc"] == 1 for v in out.values())}
    json.dump(results, open(respath, "w"), indent=1)
shutil.rmtree(COPY, ignore_errors=True)
