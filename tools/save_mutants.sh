#!/bin/bash
# usage: save_mutants.sh <P> <tag e.g. r3> <round number> <crate> "<origin tree note>"   -- copies /tmp/wt/<P><tag>/MUTANTS/m* (already confirmed:
# /tmp/wt/logs/<P><tag>_m<i>.log ends in CONFIRMED) to /verif/seeded/<P>-<tag>m<i>/ and removes the worktree
P=$1; TAG=$2; ROUND=$3; CRATE=${4:-automerge}; TREE=${5:-"tree after the D1-D29b repairs"}
cd /verif
for src in /tmp/wt/${P}${TAG}/MUTANTS/m*; do
  i=$(basename $src | sed 's/m//'); log=/tmp/wt/logs/${P}${TAG}_m$i.log
  if ! tail -1 $log | grep -q '^CONFIRMED'; then echo "skip $src (not confirmed)"; continue; fi
  d=seeded/$P-${TAG}m$i; mkdir -p $d
  cp $src/patch.diff $src/demo.rs $d/; [ -f $src/notes.md ] && cp $src/notes.md $d/; cp $log $d/confirm.log
  files=$(grep '^+++' $src/patch.diff | sed 's/+++ b\///' | python3 -c 'import sys,json; print(json.dumps([l.strip() for l in sys.stdin]))')
  cat > $d/meta.json <<EOM
{
 "property": "$P",
 "round": $ROUND,
 "origin": "independent sub-agent given only the property text, a scratch worktree ($TREE) and one-line descriptions of the earlier changes to avoid",
 "crate": "$CRATE",
 "files": $files,
 "needs_to_manifest": "see notes.md",
 "confirmed_by_me": true,
 "what_i_ran": "tools/confirm_mutant.sh: demo passes without patch, fails with patch, the crate's tests pass with patch (confirm.log)"
}
EOM
  echo saved $d
done
git -C /repo worktree remove --force /tmp/wt/${P}${TAG}; git -C /repo worktree prune
