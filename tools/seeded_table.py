#!/usr/bin/env python3
"""Print the markdown table of DESIGN.md section 9.1 from seeded/RESULTS.json + meta.json."""
import json, os
S = "/verif/seeded"
res = json.load(open(os.path.join(S, "RESULTS.json")))
rows = []
for n in sorted(d for d in os.listdir(S) if os.path.isdir(os.path.join(S, d))):
    meta = json.load(open(os.path.join(S, n, "meta.json")))
    r = res.get(n)
    files = ", ".join(os.path.basename(f) for f in meta.get("files", []))
    if not r:
        rows.append((n, files, "not run", ""))
        continue
    if not r.get("applied"):
        rows.append((n, files, "patch does not apply", ""))
        continue
    det = "DETECTED" if r["detected"] else ("tool failure (exit 2)" if r.get("tool_failure_only") else "missed")
    obl = []
    for p, c in r["checks"].items():
        for l in c["lines"]:
            if l.startswith("VIOLATION"):
                o = l.split("obligation=")[1].split(" ")[0]
                if o not in obl:
                    obl.append(o)
            elif l.startswith("TOOL-FAILURE") and not r["detected"]:
                obl.append("(" + l[13:110].replace("|", "/") + "…)")
    rows.append((n, files, det, "; ".join(obl[:3])))
print("| change | file(s) touched | outcome of the quick check | obligation(s) that report it |")
print("|---|---|---|---|")
for r in rows:
    print("| %s | %s | %s | %s |" % r)
d = sum(1 for r in rows if r[2] == "DETECTED"); t = sum(1 for r in rows if r[2].startswith("tool"))
print("\n%d changes: %d detected (exit 1), %d undecided (exit 2, tool failure), %d missed (exit 0)." % (len(rows), d, t, len(rows) - d - t))
