#!/usr/bin/env python3
"""Replace the table of DESIGN.md section 9.1 (between its header line and 'Reading the table:') with the
output of tools/seeded_table.py."""
import subprocess, re
p = "/verif/DESIGN.md"
s = open(p).read()
tab = subprocess.run(["python3", "/verif/tools/seeded_table.py"], capture_output=True, text=True, check=True).stdout
a = s.index("### 9.1 Results")
a = s.index("\n", a) + 1
b = s.index("Reading the table:")
s = s[:a] + "\n" + tab + "\n" + s[b:]
open(p, "w").write(s)
print(tab.strip().split("\n")[-1])
